From Coq Require Import List Bool ZArith Lia Permutation.
From V Require Import C05.Model.
Import ListNotations.
Open Scope Z_scope.

(* ================= residue order ================= *)

(* The relation of the match_order docstring table (do_links.py l.130-185) as a proposition. *)
Definition order_rel (o1 : order) (r1 : Z) (o2 : order) (r2 : Z) : Prop :=
  match o1, o2 with
  | ONum a, ONum b => r2 - r1 = b - a
  | ONum a, OAngle b => a = 0 -> (0 < b -> r1 < r2) /\ (b < 0 -> r2 < r1) /\ (b = 0 -> r1 = r2)
  | OAngle a, ONum b => b = 0 -> (0 < a -> r2 < r1) /\ (a < 0 -> r1 < r2) /\ (a = 0 -> r1 = r2)
  | ONum a, OStar _ => a = 0 -> r1 <> r2
  | OStar _, ONum b => b = 0 -> r1 <> r2
  | OAngle a, OAngle b => (a < b -> r1 < r2) /\ (b < a -> r2 < r1) /\ (a = b -> r1 = r2)
  | OStar a, OStar b => a = b <-> r1 = r2
  | OAngle _, OStar _ | OStar _, OAngle _ => True
  end.

Lemma sgn_eqb a b : Z.eqb (Z.sgn a) (Z.sgn b) = true <-> ((0 < b -> 0 < a) /\ (b < 0 -> a < 0) /\ (b = 0 -> a = 0)).
Proof. rewrite Z.eqb_eq. destruct a, b; cbn; split; intros H; try lia; try discriminate;
  destruct H as (H1 & H2 & H3); try (specialize (H3 eq_refl); discriminate);
  try (assert (X : 0 < Z.neg p) by (apply H1; lia); lia);
  try (assert (X : Z.pos p < 0) by (apply H2; lia); lia);
  try (assert (X : 0 < 0) by (apply H1; lia); lia);
  try (assert (X : 0 < 0) by (apply H2; lia); lia). Qed.

Lemma match_order_spec o1 r1 o2 r2 : match_order o1 r1 o2 r2 = true <-> order_rel o1 r1 o2 r2.
Proof.
  destruct o1 as [a|a|a], o2 as [b|b|b]; unfold match_order, order_rel, sgn.
  - rewrite Z.eqb_eq. lia.
  - destruct (Z.eqb_spec a 0) as [->|Ha]; [rewrite sgn_eqb; split; [intros H _|intros H; specialize (H eq_refl)]; lia|].
    split; [intros _ H; contradiction|reflexivity].
  - destruct (Z.eqb_spec a 0) as [->|Ha]; [rewrite negb_true_iff, Z.eqb_neq; tauto|].
    split; [intros _ H; contradiction|reflexivity].
  - destruct (Z.eqb_spec b 0) as [->|Hb]; [rewrite sgn_eqb; split; [intros H _|intros H; specialize (H eq_refl)]; lia|].
    split; [intros _ H; contradiction|reflexivity].
  - rewrite sgn_eqb. lia.
  - tauto.
  - destruct (Z.eqb_spec b 0) as [->|Hb]; [rewrite negb_true_iff, Z.eqb_neq; tauto|].
    split; [intros _ H; contradiction|reflexivity].
  - tauto.
  - rewrite eqb_true_iff. destruct (Z.eqb_spec a b), (Z.eqb_spec r1 r2); split; intros H; try tauto; try discriminate.
Qed.

Lemma order_rel_sym o1 r1 o2 r2 : order_rel o1 r1 o2 r2 -> order_rel o2 r2 o1 r1.
Proof. destruct o1, o2; unfold order_rel; intros H; try tauto; try lia. Qed.

Lemma match_order_sym o1 r1 o2 r2 : match_order o1 r1 o2 r2 = match_order o2 r2 o1 r1.
Proof.
  destruct (match_order o1 r1 o2 r2) eqn:E1, (match_order o2 r2 o1 r1) eqn:E2; try reflexivity.
  - apply match_order_spec, order_rel_sym, match_order_spec in E1. congruence.
  - apply match_order_spec, order_rel_sym, match_order_spec in E2. congruence.
Qed.

(* ================= enumeration of injective placements ================= *)

Lemma inj_lists_spec n : forall U l, In l (inj_lists n U) <-> (List.length l = n /\ NoDup l /\ incl l U).
Proof.
  induction n as [|n IH]; intros U l; cbn [inj_lists].
  - split.
    + intros [<-|[]]. repeat split; [constructor|intros x []].
    + intros (H & _ & _). destruct l; [left; reflexivity|discriminate].
  - rewrite in_flat_map. split.
    + intros (x & Hx & Hl). apply in_map_iff in Hl as (r & <- & Hr). apply IH in Hr as (Hlen & Hnd & Hinc).
      split; [cbn; lia|]. split.
      * constructor; [|exact Hnd]. intros Hin. apply Hinc in Hin. apply filter_In in Hin as [_ Hin].
        rewrite Z.eqb_refl in Hin. discriminate.
      * intros y [<-|Hy]; [exact Hx|]. apply Hinc in Hy. apply filter_In in Hy. tauto.
    + intros (Hlen & Hnd & Hinc). destruct l as [|x r]; [discriminate|].
      exists x. split; [apply Hinc; left; reflexivity|]. apply in_map. apply IH.
      inversion Hnd as [|? ? Hx Hr]; subst. split; [cbn in Hlen; lia|]. split; [exact Hr|].
      intros y Hy. apply filter_In. split; [apply Hinc; right; exact Hy|].
      apply negb_true_iff, Z.eqb_neq. intros ->. contradiction.
Qed.

(* a placement is enumerated iff it sends the link's atoms, in order, to pairwise distinct atoms of the molecule *)
Lemma placements_spec L m p :
  In p (placements L m) <->
  exists img, p = combine (map l_key (lnodes L)) img /\ List.length img = List.length (lnodes L)
              /\ NoDup img /\ incl img (map m_key (nodes m)).
Proof.
  unfold placements. rewrite in_map_iff. split.
  - intros (img & <- & H). apply inj_lists_spec in H. exists img. tauto.
  - intros (img & -> & H). exists img. split; [reflexivity|]. apply inj_lists_spec. exact H.
Qed.

(* the model's matches are exactly the enumerated placements that satisfy every condition *)
Lemma matches_spec L m p : In p (matches L m) <-> In p (placements L m) /\ fits L m p = true.
Proof. unfold matches. apply filter_In. Qed.

(* ---------- what "fits" means, condition by condition ---------- *)
Lemma attributes_match_spec a t :
  attributes_match a t = true <-> forall k q, In (k, q) t -> pred_ok a k q = true.
Proof.
  unfold attributes_match. rewrite forallb_forall. split.
  - intros H k q Hin. apply (H (k, q) Hin).
  - intros H [k q] Hin. apply H. exact Hin.
Qed.

Lemma pred_ok_spec a k q :
  pred_ok a k q = true <->
  match q with
  | PEq v => aget a k = Some v
  | PChoice vs => exists x, aget a k = Some x /\ In x vs
  | PNot v => aget a k <> Some v
  | PList _ => False
  end.
Proof.
  unfold pred_ok. destruct q as [v|vs|v|vs]; destruct (aget a k) as [x|].
  - rewrite Z.eqb_eq. split; congruence.
  - split; discriminate.
  - rewrite existsb_exists. split.
    + intros (y & Hy & E). apply Z.eqb_eq in E. subst. eauto.
    + intros (y & [= ->] & Hy). exists y. split; [exact Hy|apply Z.eqb_refl].
  - split; [discriminate|intros (y & H & _); discriminate].
  - rewrite negb_true_iff, Z.eqb_neq. split; congruence.
  - split; [discriminate|reflexivity].
  - split; [discriminate|tauto].
  - split; [discriminate|tauto].
Qed.

Lemma fits_spec L m p :
  fits L m p = true <->
  attributes_match (meta m) (molmeta L) = true /\
  (forall n, In n (lnodes L) -> node_ok m p n = true) /\
  induced_ok L m p = true /\ non_edges_ok L m p = true /\ patterns_ok L m p = true /\ orders_ok L m p = true.
Proof. unfold fits. rewrite !andb_true_iff, forallb_forall. tauto. Qed.

(* bonds among matched atoms: present in the molecule exactly when present in the link *)
Lemma induced_ok_spec L m p :
  induced_ok L m p = true ->
  forall a b, In a (lnodes L) -> In b (lnodes L) ->
  exists x y, pget p (l_key a) = Some x /\ pget p (l_key b) = Some y /\
              has_edge (ledges L) (l_key a) (l_key b) = has_edge (edges m) x y.
Proof.
  unfold induced_ok. rewrite forallb_forall. intros H a b Ha Hb.
  specialize (H (a, b) (proj2 (in_prod_iff _ _ a b) (conj Ha Hb))). cbn in H.
  destruct (pget p (l_key a)) as [x|]; [|discriminate]. destruct (pget p (l_key b)) as [y|]; [|discriminate].
  exists x, y. repeat split. apply eqb_prop. exact H.
Qed.

(* residue orders: same order => same residue; different orders => the table relation *)
Lemma orders_ok_spec L m p :
  orders_ok L m p = true ->
  forall a b, In a (lnodes L) -> In b (lnodes L) ->
    (l_order a = l_order b -> resid_of m p a = resid_of m p b) /\
    (l_order a <> l_order b -> order_rel (l_order a) (resid_of m p a) (l_order b) (resid_of m p b)).
Proof.
  unfold orders_ok. rewrite forallb_forall. intros H a b Ha Hb.
  specialize (H (a, b) (proj2 (in_prod_iff _ _ a b) (conj Ha Hb))). cbn in H.
  assert (Heq : order_eqb (l_order a) (l_order b) = true <-> l_order a = l_order b).
  { destruct (l_order a), (l_order b); cbn; rewrite ?Z.eqb_eq; split; try congruence; try discriminate. }
  destruct (order_eqb (l_order a) (l_order b)) eqn:E.
  - split; [intros _; apply Z.eqb_eq; exact H|]. intros Hn. exfalso. apply Hn. apply Heq. reflexivity.
  - split; [intros He; apply Heq in He; discriminate|]. intros _. apply match_order_spec. exact H.
Qed.

(* ================= interaction tables ================= *)
Lemma iget_iput d : forall t l t', iget (iput d t l) t' = if Z.eqb t t' then l else iget d t'.
Proof.
  induction d as [|[u l0] r IH]; intros t l t'; cbn [iput iget].
  - destruct (Z.eqb_spec t t'); reflexivity.
  - destruct (Z.eqb_spec u t) as [->|Hut]; cbn [iget].
    + destruct (Z.eqb_spec t t'); reflexivity.
    + rewrite IH. destruct (Z.eqb_spec u t') as [->|]; [|reflexivity].
      destruct (Z.eqb_spec t t'); [congruence|reflexivity].
Qed.

Lemma list_eqbZ_eq a : forall b, list_eqbZ a b = true <-> a = b.
Proof.
  induction a as [|x r IH]; intros [|y s]; cbn.
  - tauto.
  - split; discriminate.
  - split; discriminate.
  - rewrite andb_true_iff, Z.eqb_eq. fold (list_eqbZ r s). rewrite IH. split; [intros [-> ->]; reflexivity|intros [= -> ->]; tauto].
Qed.

Definition ident (i : inter) : list Z * Z := (i_atoms i, i_version i).
Lemma same_id_spec i j : same_id i j = true <-> ident i = ident j.
Proof. unfold same_id, ident. rewrite andb_true_iff, list_eqbZ_eq, Z.eqb_eq. split; [intros [-> ->]; reflexivity|intros [= -> ->]; tauto]. Qed.

Lemma roa_in_new l i : In i (replace_or_append l i).
Proof. induction l as [|j r IH]; cbn; [left; reflexivity|]. destruct (same_id j i); [left; reflexivity|right; exact IH]. Qed.

Lemma roa_origin l i j : In j (replace_or_append l i) -> j = i \/ In j l.
Proof.
  induction l as [|k r IH]; cbn; [intros [<-|[]]; left; reflexivity|].
  destruct (same_id k i); cbn; intros [<-|H]; auto. destruct (IH H); auto.
Qed.

Lemma roa_keeps l i j : In j l -> same_id j i = false -> In j (replace_or_append l i).
Proof.
  induction l as [|k r IH]; cbn; [tauto|]. intros [->|H] Hn.
  - rewrite Hn. left; reflexivity.
  - destruct (same_id k i); [right; exact H|right; apply IH; assumption].
Qed.

Lemma roa_idents l i : NoDup (map ident l) -> NoDup (map ident (replace_or_append l i)).
Proof.
  induction l as [|k r IH]; cbn; [intros _; constructor; [tauto|constructor]|].
  intros H. inversion H as [|? ? Hk Hr]; subst. destruct (same_id k i) eqn:E; cbn.
  - apply same_id_spec in E. rewrite <- E. exact H.
  - constructor; [|apply IH; exact Hr]. intros Hin. apply in_map_iff in Hin as (j & Hj & Hin).
    apply roa_origin in Hin as [->|Hin].
    + assert (X : same_id k i = true) by (apply same_id_spec; congruence). congruence.
    + apply Hk. rewrite <- Hj. apply in_map. exact Hin.
Qed.

(* later overrides earlier: with one interaction per identity (atoms, version), after adding i the only
   interaction with i's identity is i itself *)
Lemma roa_overrides l i j : NoDup (map ident l) -> In j (replace_or_append l i) -> ident j = ident i -> j = i.
Proof.
  intros Hnd Hin Hid. pose proof (roa_idents l i Hnd) as Hnd'. pose proof (roa_in_new l i) as Hi.
  clear Hnd. induction (replace_or_append l i) as [|k r IH]; [destruct Hin|].
  cbn in Hnd'. inversion Hnd' as [|? ? Hk Hr]; subst.
  destruct Hin as [->|Hin], Hi as [->|Hi]; try reflexivity.
  - exfalso. apply Hk. rewrite Hid. apply in_map. exact Hi.
  - exfalso. apply Hk. rewrite <- Hid. apply in_map. exact Hin.
  - apply IH; assumption.
Qed.

Lemma rfm_subset m l atoms r j : In j (remove_first_match m l atoms r) -> In j l.
Proof. induction l as [|k s IH]; cbn; [tauto|]. destruct (removal_matches m k atoms r); [right; assumption|]. intros [<-|H]; [left; reflexivity|right; apply IH; exact H]. Qed.

(* a removal takes effect: with one interaction per identity, no interaction matching the template remains *)
Lemma rfm_removed m l atoms r j :
  NoDup (map i_atoms l) -> In j (remove_first_match m l atoms r) -> removal_matches m j atoms r = false.
Proof.
  induction l as [|k s IH]; cbn; [tauto|]. intros Hnd. inversion Hnd as [|? ? Hk Hs]; subst.
  destruct (removal_matches m k atoms r) eqn:E.
  - intros Hin. destruct (removal_matches m j atoms r) eqn:E2; [|reflexivity]. exfalso.
    unfold removal_matches in E, E2. rewrite !andb_true_iff in E, E2.
    destruct E as [[[E _] _] _], E2 as [[[E2 _] _] _]. apply list_eqbZ_eq in E, E2.
    apply Hk. rewrite E, <- E2. apply in_map. exact Hin.
  - intros [<-|Hin]; [exact E|apply IH; assumption].
Qed.

(* ================= origin of every interaction ================= *)
Lemma do_removals_subset L m1 p d t j : In j (iget (do_removals L m1 p d) t) -> In j (iget d t).
Proof.
  unfold do_removals. revert d. induction (lremoved L) as [|tr r IH]; intros d; cbn [fold_left]; [tauto|].
  intros H. apply IH in H. rewrite iget_iput in H. destruct (Z.eqb_spec (fst tr) t) as [->|]; [|exact H].
  eapply rfm_subset; eauto.
Qed.

Lemma do_adds_origin p adds : forall d t j, In j (iget (do_adds p adds d) t) ->
  In j (iget d t) \/ exists i, In (t, i) adds /\ j = inst p i.
Proof.
  unfold do_adds. induction adds as [|[t0 i0] r IH]; intros d t j; cbn [fold_left]; [auto|].
  intros H. apply IH in H as [H|(i & Hi & ->)].
  - cbn [fst snd] in H. rewrite iget_iput in H. destruct (Z.eqb_spec t0 t) as [->|]; [|left; exact H].
    apply roa_origin in H as [->|H]; [right; exists i0; split; [left; reflexivity|reflexivity]|left; exact H].
  - right. exists i. split; [right; exact Hi|reflexivity].
Qed.

(* an identity present in the table stays present through later adds: the same interaction, or a later
   instance with the same identity that replaced it *)
Lemma do_adds_keeps_id p adds : forall d t x, In x (iget d t) ->
  exists x', In x' (iget (do_adds p adds d) t) /\ ident x' = ident x /\ (x' = x \/ exists i', In (t, i') adds /\ x' = inst p i').
Proof.
  unfold do_adds. induction adds as [|[t0 i0] r IH]; intros d t x Hx; cbn [fold_left fst snd].
  - exists x. auto.
  - destruct (Z.eqb_spec t0 t) as [->|Hne].
    + destruct (same_id x (inst p i0)) eqn:E.
      * destruct (IH (iput d t (replace_or_append (iget d t) (inst p i0))) t (inst p i0)) as (x' & H1 & H2 & H3).
        { rewrite iget_iput, Z.eqb_refl. apply roa_in_new. }
        apply same_id_spec in E. exists x'. split; [exact H1|]. split; [congruence|]. right.
        destruct H3 as [->|(i' & Hi' & ->)]; [exists i0; split; [left; reflexivity|reflexivity]|exists i'; split; [right; exact Hi'|reflexivity]].
      * destruct (IH (iput d t (replace_or_append (iget d t) (inst p i0))) t x) as (x' & H1 & H2 & H3).
        { rewrite iget_iput, Z.eqb_refl. apply roa_keeps; assumption. }
        exists x'. split; [exact H1|]. split; [exact H2|]. destruct H3 as [->|(i' & Hi' & ->)]; [left; reflexivity|right; exists i'; split; [right; exact Hi'|reflexivity]].
    + destruct (IH (iput d t0 (replace_or_append (iget d t0) (inst p i0))) t x) as (x' & H1 & H2 & H3).
      { rewrite iget_iput. destruct (Z.eqb_spec t0 t); [contradiction|exact Hx]. }
      exists x'. split; [exact H1|]. split; [exact H2|]. destruct H3 as [->|(i' & Hi' & ->)]; [left; reflexivity|right; exists i'; split; [right; exact Hi'|reflexivity]].
Qed.

(* every instance is present after the adds, or an instance of a later interaction of the same link with the same
   identity has taken its place *)
Lemma do_adds_present p adds d t i : In (t, i) adds ->
  exists i', In (t, i') adds /\ ident (inst p i') = ident (inst p i) /\ In (inst p i') (iget (do_adds p adds d) t).
Proof.
  intros Hin. apply in_split in Hin as (a1 & a2 & ->). unfold do_adds. rewrite fold_left_app. cbn [fold_left fst snd].
  set (d1 := fold_left _ a1 d).
  destruct (do_adds_keeps_id p a2 (iput d1 t (replace_or_append (iget d1 t) (inst p i))) t (inst p i)) as (x' & H1 & H2 & H3).
  { rewrite iget_iput, Z.eqb_refl. apply roa_in_new. }
  destruct H3 as [->|(i' & Hi' & ->)].
  - exists i. split; [apply in_or_app; right; left; reflexivity|]. split; [reflexivity|exact H1].
  - exists i'. split; [apply in_or_app; right; right; exact Hi'|]. split; [exact H2|exact H1].
Qed.

Lemma do_adds_idents p adds : forall d t, NoDup (map ident (iget d t)) -> NoDup (map ident (iget (do_adds p adds d) t)).
Proof.
  unfold do_adds. induction adds as [|[t0 i0] r IH]; intros d t H; cbn [fold_left fst snd]; [exact H|].
  apply IH. rewrite iget_iput. destruct (Z.eqb_spec t0 t) as [->|]; [apply roa_idents; exact H|exact H].
Qed.

(* later overrides earlier: after a link's interactions are added on a placement, whatever carries the identity of one
   of them is an instance of that link on that placement (never the older interaction) *)
Lemma do_adds_overrides p adds d t i j :
  NoDup (map ident (iget d t)) -> In (t, i) adds ->
  In j (iget (do_adds p adds d) t) -> ident j = ident (inst p i) ->
  exists i', In (t, i') adds /\ j = inst p i'.
Proof.
  intros Hnd Hin Hj Hid. destruct (do_adds_present p adds d t i Hin) as (i' & Hi' & Hid' & Hp).
  exists i'. split; [exact Hi'|]. pose proof (do_adds_idents p adds d t Hnd) as Hnd'.
  set (l := iget (do_adds p adds d) t) in *. clearbody l.
  assert (E : ident j = ident (inst p i')) by congruence. clear -Hnd' Hj Hp E.
  induction l as [|k r IH]; [destruct Hj|]. cbn in Hnd'. inversion Hnd' as [|? ? Hk Hr]; subst.
  destruct Hj as [->|Hj], Hp as [Hp|Hp]; [exact Hp| | |apply IH; assumption].
  - exfalso. apply Hk. rewrite E. apply in_map. exact Hp.
  - exfalso. apply Hk. rewrite Hp, <- E. apply in_map. exact Hj.
Qed.

Lemma apply_match_origin L m p t j :
  In j (iget (inters (apply_match L m p)) t) ->
  In j (iget (inters m) t) \/ exists i, In (t, i) (linters L) /\ j = inst p i.
Proof.
  unfold apply_match. cbn [inters]. intros H. apply do_adds_origin in H as [H|H]; [left|right; exact H].
  eapply do_removals_subset. exact H.
Qed.

Lemma apply_match_present L m p t i :
  In (t, i) (linters L) ->
  exists i', In (t, i') (linters L) /\ ident (inst p i') = ident (inst p i) /\ In (inst p i') (iget (inters (apply_match L m p)) t).
Proof. intros H. unfold apply_match. cbn [inters]. apply do_adds_present. exact H. Qed.

Lemma fold_matches_origin L ps : forall m t j,
  In j (iget (inters (fold_left (apply_match L) ps m)) t) ->
  In j (iget (inters m) t) \/ exists p i, In p ps /\ In (t, i) (linters L) /\ j = inst p i.
Proof.
  induction ps as [|p r IH]; intros m t j; cbn [fold_left]; [auto|].
  intros H. apply IH in H as [H|(q & i & Hq & Hi & ->)].
  - apply apply_match_origin in H as [H|(i & Hi & ->)]; [left; exact H|]. right. exists p, i. split; [left; reflexivity|split; [exact Hi|reflexivity]].
  - right. exists q, i. split; [right; exact Hq|split; [exact Hi|reflexivity]].
Qed.

Lemma iget_map_filter (f : inter -> bool) d : forall t, iget (map (fun tl => (fst tl, filter f (snd tl))) d) t = filter f (iget d t).
Proof. induction d as [|[u l] r IH]; intros t; cbn; [reflexivity|]. destruct (Z.eqb u t); [reflexivity|apply IH]. Qed.

Lemma remove_nodes_subset m ks t j : In j (iget (inters (remove_nodes m ks)) t) -> In j (iget (inters m) t).
Proof. unfold remove_nodes. cbn [inters]. rewrite iget_map_filter. intros H. apply filter_In in H. tauto. Qed.

(* removed atoms leave no interaction behind *)
Lemma remove_nodes_clean m ks t j a : In j (iget (inters (remove_nodes m ks)) t) -> In a (i_atoms j) -> ~ In a ks.
Proof.
  unfold remove_nodes. cbn [inters]. rewrite iget_map_filter. intros H Ha Hk. apply filter_In in H as [_ H].
  apply negb_true_iff in H. assert (X : existsb (fun k => existsb (Z.eqb k) ks) (i_atoms j) = true).
  { apply existsb_exists. exists a. split; [exact Ha|]. apply existsb_exists. exists a. split; [exact Hk|apply Z.eqb_refl]. }
  congruence.
Qed.

Lemma apply_link_origin L m pend t j :
  In j (iget (inters (fst (apply_link L (m, pend)))) t) ->
  In j (iget (inters m) t) \/ exists p i, In p (matches L m) /\ In (t, i) (linters L) /\ j = inst p i.
Proof. unfold apply_link. cbn [fst]. intros H. apply remove_nodes_subset in H. apply fold_matches_origin. exact H. Qed.

(* No unjustified interaction: every interaction after all links is an original one, or the instance of an interaction
   of some link L on a placement that satisfied all of L's conditions on the molecule as it was when L was applied. *)
Lemma do_links_origin_gen Ls : forall ms t j,
  In j (iget (inters (fst (fold_left (fun ms L => apply_link L ms) Ls ms))) t) ->
  In j (iget (inters (fst ms)) t) \/
  exists Ls1 L Ls2 p i, Ls = Ls1 ++ L :: Ls2 /\
    In p (matches L (fst (fold_left (fun ms L => apply_link L ms) Ls1 ms))) /\ In (t, i) (linters L) /\ j = inst p i.
Proof.
  induction Ls as [|L r IH] using rev_ind; intros ms t j; [cbn; auto|].
  rewrite fold_left_app. cbn [fold_left]. destruct (fold_left _ r ms) as [m1 pend1] eqn:E. intros H.
  apply apply_link_origin in H as [H|(p & i & Hp & Hi & ->)].
  - replace m1 with (fst (fold_left (fun ms L => apply_link L ms) r ms)) in H by (rewrite E; reflexivity).
    apply IH in H as [H|(Ls1 & L0 & Ls2 & p & i & -> & H1 & H2 & H3)]; [left; exact H|].
    right. exists Ls1, L0, (Ls2 ++ [L]), p, i. split; [rewrite <- app_assoc; reflexivity|]. auto.
  - right. exists r, L, [], p, i. split; [reflexivity|]. rewrite E. cbn [fst]. auto.
Qed.
