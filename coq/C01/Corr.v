(* C01 — case type and the two boolean functions evaluated on generated cases. *)
From Coq Require Import List Bool ZArith.
From V Require Import C05.Model C06.Model C06.LookAhead C06.Search C01.Model C01.ModMap.
Import ListNotations.
Open Scope Z_scope.

Record ibead := { i_key : Z; i_name : Z; i_resid : Z; i_cg : Z; i_w : list (Z * Z); i_chain : option Z; i_old : option Z }.

Inductive case :=
| CMap (M : mapping) (m : molecule) (impl : list (list (Z * list (Z * Z))))      (* Mapping.map: the set of placements *)
| CDo (fast : bool)                                                               (* enumerate placements with C06's proved backtracking search (shipped data) *)
      (Ms : list mapping) (m : molecule)
      (found : list pmatch)                                                      (* placements in the order the implementation found them *)
      (beads : list ibead) (iedges : list (Z * Z)) (iinters : list (Z * (list Z * Z)))
      (w_overlap w_unmapped : bool)
| CDoMods (fast : bool) (Ms : list mapping) (MMs : list modmap) (L : labelled)
      (found : list pmatch) (mfound : list (Z * list (Z * list (Z * Z))))          (* modification placements found: (index of the mapping, atom -> [(particle, weight)]) *)
      (no_cover : nat)                                                              (* warnings "Can't find modification mappings" *)
      (result : option (list ibead * list (Z * Z) * list (Z * (list Z * Z)) * bool * bool)).   (* None: ValueError *)

Definition pairs_same (a b : list (Z * Z)) : bool :=
  Nat.eqb (List.length a) (List.length b)
  && forallb (fun x => existsb (fun y => Z.eqb (fst x) (fst y) && Z.eqb (snd x) (snd y)) b) a
  && forallb (fun x => existsb (fun y => Z.eqb (fst x) (fst y) && Z.eqb (snd x) (snd y)) a) b.

Definition m2b_same (a b : list (Z * list (Z * Z))) : bool :=
  Nat.eqb (List.length a) (List.length b)
  && forallb (fun x => existsb (fun y => Z.eqb (fst x) (fst y) && pairs_same (snd x) (snd y)) b) a.

Definition sets_same (a b : list (list (Z * list (Z * Z)))) : bool :=
  Nat.eqb (List.length a) (List.length b)
  && forallb (fun x => existsb (m2b_same x) b) a && forallb (fun x => existsb (m2b_same x) a) b.

Definition edges_same (a b : list (Z * Z)) : bool :=
  forallb (fun e => has_edge b (fst e) (snd e)) a && forallb (fun e => has_edge a (fst e) (snd e)) b.

Definition oz_eqb (a b : option Z) : bool := match a, b with Some x, Some y => Z.eqb x y | None, None => true | _, _ => false end.

Definition inter_eqb (a b : Z * (list Z * Z)) : bool :=
  Z.eqb (fst a) (fst b) && list_eqbZ (fst (snd a)) (fst (snd b)) && Z.eqb (snd (snd a)) (snd (snd b)).
Fixpoint list_eqb {A B} (f : A -> B -> bool) (a : list A) (b : list B) : bool :=
  match a, b with [] , [] => true | x :: r, y :: s => f x y && list_eqb f r s | _, _ => false end.

Definition bead_corr (d : bead) (i : ibead) : bool :=
  Z.eqb (d_key d) (i_key i) && oz_eqb (d_name d) (Some (i_name i)) && Z.eqb (d_resid d) (i_resid i) && Z.eqb (d_cg d) (i_cg i)
  && list_eqb (fun x y => Z.eqb (fst x) (fst y) && Z.eqb (snd x) (snd y)) (d_weights d) (i_w i)
  && oz_eqb (d_chain d) (i_chain i) && oz_eqb (d_old_resid d) (i_old i).

Definition nth_mod (MMs : list modmap) (i : Z) : option modmap := nth_error MMs (Z.to_nat i).

Definition with_maps (MMs : list modmap) (mfound : list (Z * list (Z * list (Z * Z)))) : list (modmap * list (Z * list (Z * Z))) :=
  flat_map (fun im => match nth_mod MMs (fst im) with Some M => [(M, snd im)] | None => [] end) mfound.

(* the modification placements the model expects: for every needed mapping, every placement *)
Definition expected_mod_matches (MMs : list modmap) (L : labelled) : list (list (Z * list (Z * Z))) :=
  flat_map (fun names => flat_map (fun M => if list_eqbZ (mm_names M) names then map (mtranslate M) (mm_placements M L) else []) MMs)
           (fst (needed L MMs)).

Definition corr (k : case) : bool :=
  match k with
  | CDoMods _ Ms MMs L found mfound no_cover result =>
      sets_same (expected_mod_matches MMs L) (map snd mfound)
      && Nat.eqb (snd (needed L MMs)) no_cover
      && match do_mapping_mods (l_mol L) found (with_maps MMs mfound), result with
         | Some o, Some (beads, iedges, iinters, wo, wu) =>
             list_eqb bead_corr (out_beads o) beads && edges_same (out_edges o) iedges
             && forallb (fun t => list_eqb inter_eqb (filter (fun i => Z.eqb (fst i) t) (out_inters o)) (filter (fun i => Z.eqb (fst i) t) iinters)) [1; 2]
             && Bool.eqb (warn_overlap o) wo && Bool.eqb (warn_unmapped o) wu
         | None, None => true
         | _, _ => false
         end
  | CMap M m impl => sets_same (map (fun p => p_m2b (translate M p)) (mmatches M m)) impl
  | CDo _ Ms m found beads iedges iinters wo wu =>
      let o := do_mapping m found in
      list_eqb bead_corr (out_beads o) beads && edges_same (out_edges o) iedges
      && forallb (fun t => list_eqb inter_eqb (filter (fun i => Z.eqb (fst i) t) (out_inters o)) (filter (fun i => Z.eqb (fst i) t) iinters))
                 (map fst (out_inters o) ++ map fst iinters)
      && Bool.eqb (warn_overlap o) wo && Bool.eqb (warn_unmapped o) wu
  end.

(* ---------- the statement, evaluated directly (no incremental tables, no merge) ---------- *)
Definition all_placements (Ms : list mapping) (m : molecule) : list pmatch :=
  flat_map (fun M => map (translate M) (mmatches M m)) Ms.

(* the same placements found with the backtracking search of C06 (proved sound and complete for induced sub-graph
   isomorphisms of coloured graphs): colour = (atom name, residue name); the same-residue parity of bonds is filtered after *)
Definition colour_of (name resname : Z) : Z := name * 1000 + resname.
Definition pattern_graph (M : mapping) : graph :=
  {| g_nodes := map (fun n => (f_key n, colour_of (f_name n) (f_resname n))) (m_from M);
     g_edges := map (fun e => (fst e, snd e, 1)) (m_fedges M) |}.
Definition mol_graph (m : molecule) : graph :=
  {| g_nodes := map (fun a => (a_key a, colour_of (a_name a) (a_resname a))) (atoms m);
     g_edges := map (fun e => (fst e, snd e, 1)) (bonds m) |}.
Definition parity_ok (M : mapping) (m : molecule) (p : placement) : bool :=
  forallb (fun e => match find (fun n => Z.eqb (f_key n) (fst e)) (m_from M), find (fun n => Z.eqb (f_key n) (snd e)) (m_from M) with
                    | Some a, Some b => Bool.eqb (Z.eqb (f_resid a) (f_resid b)) (Z.eqb (mresid m p a) (mresid m p b))
                    | _, _ => false end) (m_fedges M).
Definition mmatches_fast (M : mapping) (m : molecule) : list placement :=
  filter (parity_ok M m) (find_isomorphisms (pattern_graph M) (mol_graph m) [] (fun l _ => hd 0 l)).
Definition all_placements_with (fast : bool) (Ms : list mapping) (m : molecule) : list pmatch :=
  if fast then flat_map (fun M => map (translate M) (mmatches_fast M m)) Ms else all_placements Ms m.

Definition keys_of (pm : pmatch) : list Z := map fst (p_m2b pm).

Fixpoint distinctZ (l : list Z) : bool := match l with [] => true | x :: r => negb (zmem x r) && distinctZ r end.

(* each placement with the key offset of its copy *)
Fixpoint layout (ms : list pmatch) (off : Z) : list (pmatch * Z) :=
  match ms with [] => [] | pm :: r => (pm, off) :: layout r (off + Z.of_nat (List.length (b_nodes (p_block pm)))) end.

Fixpoint index_of (k : Z) (l : list Z) (i : Z) : Z := match l with [] => -1 | x :: r => if Z.eqb x k then i else index_of k r (i + 1) end.
Definition new_key (pm : pmatch) (off b : Z) : Z := off + 1 + index_of b (map b_key (b_nodes (p_block pm))) 0.

Definition mapped_targets (pm : pmatch) : list Z := flat_map (fun ml => map fst (snd ml)) (p_m2b pm).

(* the atoms and weights the mapping assigns to particle b through this placement *)
Definition record (pm : pmatch) (b : Z) : list (Z * Z) :=
  if zmem b (mapped_targets pm)
  then flat_map (fun ml => flat_map (fun bw => if Z.eqb (fst bw) b then [(fst ml, snd bw)] else []) (snd ml)) (p_m2b pm)
  else map (fun u => (u, 0)) (keys_of pm).

Definition find_bead (beads : list ibead) (k : Z) : option ibead := find (fun i => Z.eqb (i_key i) k) beads.

(* every way to write the modification names of a group as a disjoint union of known name tuples (each used once) *)
Fixpoint exact_covers (opts : list (list Z)) (to_cover : list Z) : list (list (list Z)) :=
  match opts with
  | [] => match to_cover with [] => [[]] | _ => [] end
  | o :: r => exact_covers r to_cover
              ++ (match o with
                  | [] => []
                  | _ => if distinctZ o && forallb (fun i => zmem i to_cover) o
                         then map (cons o) (exact_covers r (filter (fun i => negb (zmem i o)) to_cover)) else []
                  end)
  end.

(* when the modifications of a group of residues can be described by the known modification mappings in exactly one way,
   every place where one of those mappings fits is among the placements that were applied *)
Definition unique_cover_applied (MMs : list modmap) (L : labelled) (mfound : list (Z * list (Z * list (Z * Z)))) : bool :=
  forallb (fun g =>
     match exact_covers (map mm_names MMs) (group_names L g) with
     | [c] => forallb (fun o => forallb (fun M => if list_eqbZ (mm_names M) o
                                                  then forallb (fun p => existsb (m2b_same (mtranslate M p)) (map snd mfound)) (mm_placements M L)
                                                  else true) MMs) c
     | _ => true
     end) (components (S (List.length (labelled_atoms L))) L (labelled_atoms L)).

Definition prop (k : case) : bool :=
  match k with
  | CDoMods fast Ms MMs L found mfound _ result =>
      if negb (unique_cover_applied MMs L mfound) then false else
      match result with
      | None =>
          (* an error is justified only if some modification placement refers to an existing particle whose name none of
             the particles of its atoms carries (judged from the block placements, without the merge loop) *)
          let blocks := all_placements_with fast Ms (l_mol L) in
          existsb (fun im =>
            match nth_mod MMs (fst im) with
            | None => true
            | Some M =>
                existsb (fun n =>
                  negb (mt_new n)
                  && negb (existsb (fun pm =>
                       existsb (fun ml =>
                         existsb (fun ml' => Z.eqb (fst ml') (fst ml) && existsb (fun bw => Z.eqb (fst bw) (mt_key n)) (snd ml')) (snd im)
                         && existsb (fun bw => match find (fun b => Z.eqb (b_key b) (fst bw)) (b_nodes (p_block pm)) with
                                               | Some b => oz_eqb (b_name b) (Some (mt_name n)) | None => false end) (snd ml))
                         (p_m2b pm)) blocks)) (mm_to M)
            end) mfound
      | Some (beads, iedges, iinters, wo, wu) =>
          let covered := flat_map keys_of (all_placements_with fast Ms (l_mol L)) ++ flat_map (fun im => map fst (snd im)) mfound in
          (* no silent loss, modification placements included *)
          Bool.eqb wu (existsb (fun a => negb (a_isH a) && negb (zmem (a_key a) covered)) (atoms (l_mol L)))
          (* residues are still numbered consecutively in placement order: a particle whose first atom belongs to a block
             placement carries that placement's rank (one-residue blocks, distinct lowest keys, no atom used twice) *)
          && (let all := all_placements_with fast Ms (l_mol L) in
              let order := process_order all in
              if distinctZ (map min_key all)
                 && forallb (fun pm => forallb (fun n => Z.eqb (b_resid n) 1) (b_nodes (p_block pm))) all
                 && negb (existsb (fun pq => existsb (fun u => zmem u (keys_of (snd pq))) (keys_of (fst pq))) (pairs all))
              then forallb (fun i => match i_w i with
                                     | (u, _) :: _ =>
                                         match find (fun pm => zmem u (keys_of pm)) order with
                                         | Some pm => Z.eqb (i_resid i) (1 + index_of (min_key pm) (map min_key order) 0)
                                         | None => true end
                                     | [] => true end) beads
              else true)
          (* every atom of a modification placement is recorded, with its weight, by a particle carrying the name the
             modification gives (new particle: that name; existing particle: the name after the requested renaming) *)
          && forallb (fun im =>
               match nth_mod MMs (fst im) with
               | None => false
               | Some M =>
                   forallb (fun ml => forallb (fun bw =>
                       match find (fun n => Z.eqb (mt_key n) (fst bw)) (mm_to M) with
                       | None => false
                       | Some n =>
                           let want := match mt_rename n with Some nm => nm | None => mt_name n end in
                           existsb (fun i => Z.eqb (i_name i) want
                                             && existsb (fun uw => Z.eqb (fst uw) (fst ml) && Z.eqb (snd uw) (snd bw)) (i_w i)) beads
                       end) (snd ml)) (snd im)
               end) mfound
      end
  | CMap M m impl =>
      (* every reported placement fits, every fitting placement is reported, once *)
      sets_same (map (fun p => p_m2b (translate M p)) (mmatches M m)) impl
  | CDo fast Ms m _ beads iedges iinters wo wu =>
      let all := all_placements_with fast Ms m in
      let shared := existsb (fun pq => existsb (fun u => zmem u (keys_of (snd pq))) (keys_of (fst pq))) (pairs all) in
      let covered := flat_map keys_of all in
      (* warnings *)
      Bool.eqb wo shared
      && Bool.eqb wu (existsb (fun a => negb (a_isH a) && negb (zmem (a_key a) covered)) (atoms m))
      && (if distinctZ (map min_key all) then
            let lay := layout (process_order all) 0 in
            (* one copy of each block per placement, in order: particles with a name, on their keys *)
            let expected := flat_map (fun po => flat_map (fun n => match b_name n with
                                                                    | Some nm => [(new_key (fst po) (snd po) (b_key n), nm, fst po, b_key n)]
                                                                    | None => [] end) (b_nodes (p_block (fst po)))) lay in
            Nat.eqb (List.length expected) (List.length beads)
            && forallb (fun e =>
                 let '(key, nm, pm, b) := e in
                 match find_bead beads key with
                 | Some i => Z.eqb (i_name i) nm && pairs_same (record pm b) (i_w i)
                             (* residue number and chain come from the first atom that contributes *)
                             && (match i_w i with
                                 | (u, _) :: _ => match afind m u with
                                                  | Some a => oz_eqb (i_old i) (Some (a_resid a)) && oz_eqb (i_chain i) (Some (a_chain a))
                                                  | None => false end
                                 | [] => false end)
                 | None => false end) expected
            && forallb (fun i => existsb (fun e => Z.eqb (fst (fst (fst e))) (i_key i)) expected) beads
            (* consecutive residue numbers when every block is one residue *)
            && (if forallb (fun pm => forallb (fun n => Z.eqb (b_resid n) 1) (b_nodes (p_block pm))) all
                then forallb (fun e => let '(key, _, pm, _) := e in
                       match find_bead beads key with
                       | Some i => Z.eqb (i_resid i) (1 + index_of (min_key pm) (map min_key (process_order all)) 0)
                       | None => false end) expected
                else true)
            (* bonds, when no atom is used twice *)
            && (if shared then true else
                  let alive := map (fun e => fst (fst (fst e))) expected in
                  let intra := flat_map (fun po => flat_map (fun e =>
                                   let x := new_key (fst po) (snd po) (fst e) in let y := new_key (fst po) (snd po) (snd e) in
                                   if Z.eqb x y then [] else [(x, y)]) (b_edges (p_block (fst po)))) lay in
                  let targets := fun (po : pmatch * Z) (u : Z) =>
                      flat_map (fun ml => if Z.eqb (fst ml) u then map (fun bw => new_key (fst po) (snd po) (fst bw)) (snd ml) else []) (p_m2b (fst po)) in
                  let cross := flat_map (fun pq =>
                                 flat_map (fun u => flat_map (fun v =>
                                   if has_edge (bonds m) u v
                                   then flat_map (fun x => map (pair x) (targets (snd pq) v)) (targets (fst pq) u) else [])
                                   (keys_of (fst (snd pq)))) (keys_of (fst (fst pq)))) (pairs lay) in
                  edges_same (filter (fun e => zmem (fst e) alive && zmem (snd e) alive) (intra ++ cross)) iedges)
            (* interactions of each copy *)
            && (let alive := map (fun e => fst (fst (fst e))) expected in
                let expected_inters := filter (fun ti => forallb (fun a => zmem a alive) (fst (snd ti)))
                     (flat_map (fun po => map (fun ti => (fst ti, (map (new_key (fst po) (snd po)) (fst (snd ti)), snd (snd ti))))
                                              (b_inters (p_block (fst po)))) lay) in
                forallb (fun t => list_eqb inter_eqb (filter (fun i => Z.eqb (fst i) t) expected_inters)
                                                     (filter (fun i => Z.eqb (fst i) t) iinters)) (map fst expected_inters ++ map fst iinters))
          else true)
  end.
