(* C01 — model of the block-mapping path of vermouth/processors/do_mapping.py:
   Mapping.map / _graph_map (map_parser.py l.118-188) with MappingGraphMatcher (graph_utils.py l.306-340),
   _old_atomname_match / node_matcher / edge_matcher (do_mapping.py l.57-118), apply_block_mapping (l.295-373),
   Molecule.merge_molecule (molecule.py l.682-755) and do_mapping (l.480-765).
   networkx's VF2 is replaced by an exhaustive enumeration of injective placements.  Weights are integers
   (the harness ships quarter units).  Modification mappings are not modelled. *)
From Coq Require Import List Bool ZArith Lia.
From V Require Import C05.Model.
Import ListNotations.
Open Scope Z_scope.

Record atom := { a_key : Z; a_resid : Z; a_name : Z; a_resname : Z; a_isH : bool; a_chain : Z }.
Record molecule := { atoms : list atom; bonds : list (Z * Z) }.

Record fnode := { f_key : Z; f_name : Z; f_resname : Z; f_resid : Z }.
Record bnode := { b_key : Z; b_name : option Z; b_resid : Z; b_cg : Z }.
Record block := { b_nodes : list bnode; b_edges : list (Z * Z); b_inters : list (Z * (list Z * Z)) }.
Record mapping := { m_from : list fnode; m_fedges : list (Z * Z); m_to : block; m_map : list (Z * list (Z * Z)) }.

Definition afind (m : molecule) (k : Z) : option atom := find (fun a => Z.eqb (a_key a) k) (atoms m).

(* ---------------- stage 1: where a mapping fits ---------------- *)
(* all injective choices, one candidate per position (the candidates of a position are the atoms whose name and
   residue name match: a pruned exhaustive enumeration) *)
Fixpoint inj_cands (cands : list (list Z)) (used : list Z) : list (list Z) :=
  match cands with
  | [] => [[]]
  | c :: r => flat_map (fun x => if existsb (Z.eqb x) used then [] else map (cons x) (inj_cands r (x :: used))) c
  end.

Definition candidates (m : molecule) (n : fnode) : list Z :=
  map a_key (filter (fun a => Z.eqb (a_name a) (f_name n) && Z.eqb (a_resname a) (f_resname n)) (atoms m)).

Definition mplacements (M : mapping) (m : molecule) : list placement :=
  map (combine (map f_key (m_from M))) (inj_cands (map (candidates m) (m_from M)) []).

Definition mnode_ok (m : molecule) (p : placement) (n : fnode) : bool :=
  match pget p (f_key n) with
  | Some k => match afind m k with Some a => Z.eqb (a_name a) (f_name n) && Z.eqb (a_resname a) (f_resname n) | None => false end
  | None => false end.

Definition mresid (m : molecule) (p : placement) (n : fnode) : Z :=
  match pget p (f_key n) with Some k => match afind m k with Some a => a_resid a | None => 0 end | None => 0 end.

(* induced sub-graph, and edge_matcher on every edge: same-residue parity *)
Definition medges_ok (M : mapping) (m : molecule) (p : placement) : bool :=
  forallb (fun ab => match pget p (f_key (fst ab)), pget p (f_key (snd ab)) with
                     | Some x, Some y =>
                         let e := has_edge (m_fedges M) (f_key (fst ab)) (f_key (snd ab)) in
                         Bool.eqb e (has_edge (bonds m) x y)
                         && (negb e || Bool.eqb (Z.eqb (f_resid (fst ab)) (f_resid (snd ab)))
                                                (Z.eqb (mresid m p (fst ab)) (mresid m p (snd ab))))
                     | _, _ => false end)
          (list_prod (m_from M) (m_from M)).

Definition mfits (M : mapping) (m : molecule) (p : placement) : bool :=
  forallb (mnode_ok m p) (m_from M) && medges_ok M m p.

Definition mmatches (M : mapping) (m : molecule) : list placement := filter (mfits M m) (mplacements M m).

(* what a placement assigns: molecule atom -> [(block particle, weight)] *)
Record pmatch := { p_m2b : list (Z * list (Z * Z)); p_block : block }.

Definition translate (M : mapping) (p : placement) : pmatch :=
  {| p_m2b := map (fun kv => (snd kv, match find (fun e => Z.eqb (fst e) (fst kv)) (m_map M) with Some e => snd e | None => [] end)) p;
     p_block := m_to M |}.

(* ---------------- stage 2: assembling the output ---------------- *)
Record onode := { o_key : Z; o_name : option Z; o_resid : Z; o_cg : Z }.
Definition table := list (Z * list (Z * Z)).        (* an insertion-ordered dict of insertion-ordered dicts *)

Fixpoint tget (t : table) (k : Z) : list (Z * Z) :=
  match t with [] => [] | (j, l) :: r => if Z.eqb j k then l else tget r k end.
Fixpoint dset (l : list (Z * Z)) (k w : Z) : list (Z * Z) :=
  match l with [] => [(k, w)] | (j, v) :: r => if Z.eqb j k then (j, w) :: r else (j, v) :: dset r k w end.
Fixpoint tset (t : table) (k k2 w : Z) : table :=
  match t with
  | [] => [(k, [(k2, w)])]
  | (j, l) :: r => if Z.eqb j k then (j, dset l k2 w) :: r else (j, l) :: tset r k k2 w
  end.
Definition tkeys (t : table) : list Z := map fst t.
Definition zmem (k : Z) (l : list Z) : bool := existsb (Z.eqb k) l.

Record ostate := {
  s_nodes : list onode; s_edges : list (Z * Z); s_inters : list (Z * (list Z * Z));
  s_m2o : table; s_o2m : table; s_overlap : list Z; s_n21 : list Z }.

Definition init : ostate := {| s_nodes := []; s_edges := []; s_inters := []; s_m2o := []; s_o2m := []; s_overlap := []; s_n21 := [] |}.

Fixpoint last_node (l : list onode) : option onode :=
  match l with [] => None | [n] => Some n | _ :: r => last_node r end.

Fixpoint number (ns : list bnode) (k : Z) : list (Z * Z) :=
  match ns with [] => [] | n :: r => (b_key n, k) :: number r (k + 1) end.

Definition cget (c : list (Z * Z)) (k : Z) : Z := match pget c k with Some x => x | None => k end.

(* merge_molecule: keys follow the last key, residue and charge-group numbers are offset by those of the last atom *)
Definition merge_block (st : ostate) (B : block) : ostate * list (Z * Z) :=
  let '(off, roff, coff) := match last_node (s_nodes st) with
                            | Some n => (o_key n, o_resid n, o_cg n) | None => (0, 0, 0) end in
  let c := number (b_nodes B) (off + 1) in
  let new := map (fun n => {| o_key := cget c (b_key n); o_name := b_name n; o_resid := b_resid n + roff; o_cg := b_cg n + coff |}) (b_nodes B) in
  ({| s_nodes := s_nodes st ++ new;
      s_edges := s_edges st ++ flat_map (fun e => if Z.eqb (cget c (fst e)) (cget c (snd e)) then [] else [(cget c (fst e), cget c (snd e))]) (b_edges B);
      s_inters := s_inters st ++ map (fun ti => (fst ti, (map (cget c) (fst (snd ti)), snd (snd ti)))) (b_inters B);
      s_m2o := s_m2o st; s_o2m := s_o2m st; s_overlap := s_overlap st; s_n21 := s_n21 st |}, c).

(* the weight assignments of one placement: (input atom, output particle, weight); particles of the block that no
   atom maps to ("none to one") receive every atom of the placement with weight 0 *)
Definition spawned_of (pm : pmatch) (c : list (Z * Z)) : list Z :=
  let mapped := flat_map (fun ml => map fst (snd ml)) (p_m2b pm) in
  map (cget c) (filter (fun b => negb (zmem b mapped)) (map b_key (b_nodes (p_block pm)))).

Definition assignments (pm : pmatch) (c : list (Z * Z)) : list (Z * Z * Z) :=
  flat_map (fun ml => map (fun bw => (fst ml, cget c (fst bw), snd bw)) (snd ml)) (p_m2b pm)
  ++ flat_map (fun s => map (fun ml => (fst ml, s, 0)) (p_m2b pm)) (spawned_of pm c).

Definition apply_block (st : ostate) (pm : pmatch) : ostate :=
  let '(st1, c) := merge_block st (p_block pm) in
  let overlap := filter (fun k => zmem k (tkeys (s_m2o st))) (map fst (p_m2b pm)) in
  let all := assignments pm c in
  {| s_nodes := s_nodes st1; s_edges := s_edges st1; s_inters := s_inters st1;
     s_m2o := fold_left (fun t x => tset t (fst (fst x)) (snd (fst x)) (snd x)) all (s_m2o st);
     s_o2m := fold_left (fun t x => tset t (snd (fst x)) (fst (fst x)) (snd x)) all (s_o2m st);
     s_overlap := s_overlap st ++ overlap; s_n21 := s_n21 st ++ spawned_of pm c |}.

(* processing order: lowest atom key first; among equal lowest keys the LAST found goes first
   (sorted(..., reverse=True) is stable and matches are popped from the end) *)
Definition min_key (pm : pmatch) : Z :=
  match map fst (p_m2b pm) with [] => 0 | k :: r => fold_left Z.min r k end.

Fixpoint insert_by (pm : pmatch) (l : list pmatch) : list pmatch :=
  match l with
  | [] => [pm]
  | q :: r => if Z.leb (min_key pm) (min_key q) then pm :: q :: r else q :: insert_by pm r
  end.
Definition process_order (found : list pmatch) : list pmatch := fold_right insert_by [] (List.rev found).

Record bead := { d_key : Z; d_name : option Z; d_resid : Z; d_cg : Z;
                 d_weights : list (Z * Z);            (* input atom -> weight ('mapping_weights'; 'graph' is its key set) *)
                 d_chain : option Z; d_old_resid : option Z }.

Record output := { out_beads : list bead; out_edges : list (Z * Z); out_inters : list (Z * (list Z * Z));
                   warn_overlap : bool; warn_unmapped : bool }.

Definition live (st : ostate) (k : Z) : list Z := filter (fun o => negb (zmem o (s_n21 st))) (map fst (tget (s_m2o st) k)).

(* edges between the atoms of two different placements carry over to their particles *)
Fixpoint pairs {A} (l : list A) : list (A * A) :=
  match l with [] => [] | x :: r => map (pair x) r ++ pairs r end.

Definition edges_between (m : molecule) (k1 k2 : list Z) : list (Z * Z) :=
  flat_map (fun u => map (pair u) (filter (fun v => has_edge (bonds m) u v) k2)) k1.

Definition cross_edges (m : molecule) (st : ostate) (ms : list pmatch) : list (Z * Z) :=
  flat_map (fun mm =>
    flat_map (fun uv =>
      flat_map (fun x => flat_map (fun y => if Z.eqb x y then [] else [(x, y)]) (live st (snd uv))) (live st (fst uv)))
      (edges_between m (map fst (p_m2b (fst mm))) (map fst (p_m2b (snd mm)))))
    (pairs ms).

Definition do_mapping (m : molecule) (found : list pmatch) : output :=
  let ms := process_order found in
  let st := fold_left apply_block ms init in
  let beads := map (fun n =>
      let w := tget (s_o2m st) (o_key n) in
      let first := match w with (k, _) :: _ => afind m k | [] => None end in
      {| d_key := o_key n; d_name := o_name n; d_resid := o_resid n; d_cg := o_cg n; d_weights := w;
         d_chain := option_map a_chain first; d_old_resid := option_map a_resid first |}) (s_nodes st) in
  let gone := map d_key (filter (fun b => match d_name b with None => true | Some _ => false end) beads) in
  let keep2 := fun e : Z * Z => negb (zmem (fst e) gone) && negb (zmem (snd e) gone) in
  {| out_beads := filter (fun b => negb (zmem (d_key b) gone)) beads;
     out_edges := filter keep2 (s_edges st ++ cross_edges m st ms);
     out_inters := filter (fun ti => negb (existsb (fun a => zmem a gone) (fst (snd ti)))) (s_inters st);
     warn_overlap := negb (match s_overlap st with [] => true | _ => false end);
     warn_unmapped := existsb (fun a => negb (a_isH a) && negb (zmem (a_key a) (tkeys (s_m2o st)))) (atoms m) |}.
