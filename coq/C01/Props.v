(* C01 — property theorems only (block mappings; modification mappings are not modelled). *)
From Coq Require Import List Bool ZArith.
From V Require Import C05.Model C01.Model C01.Proofs C01.ModMap C01.ModMapProofs.
Import ListNotations.
Open Scope Z_scope.

(* A mapping is placed exactly where it fits: the placements tried are all injective assignments, to the atoms of the mapping's
   source block, of input atoms with the same name and residue name, and one is used iff names and residue names agree, bonds among the matched
   atoms are exactly the source block's bonds, and every such bond stays inside / crosses a residue as in the block. *)
Theorem placements_tried : forall M m p,
  In p (mplacements M m) <->
  exists img, p = combine (map f_key (m_from M)) img /\ NoDup img /\
              Forall2 (fun k n => exists a, In a (atoms m) /\ a_key a = k /\ a_name a = f_name n /\ a_resname a = f_resname n) img (m_from M).
Proof. exact mplacements_spec. Qed.
Print Assumptions placements_tried.

Theorem mapping_used_iff_fits : forall M m p, In p (mmatches M m) <-> In p (mplacements M m) /\ mfits M m p = true.
Proof. exact mmatches_spec. Qed.
Print Assumptions mapping_used_iff_fits.

Theorem fits_means : forall M m p,
  mfits M m p = true ->
  (forall n, In n (m_from M) -> exists k a, pget p (f_key n) = Some k /\ afind m k = Some a /\ a_name a = f_name n /\ a_resname a = f_resname n) /\
  (forall a b, In a (m_from M) -> In b (m_from M) ->
     exists x y, pget p (f_key a) = Some x /\ pget p (f_key b) = Some y /\
       has_edge (m_fedges M) (f_key a) (f_key b) = has_edge (bonds m) x y /\
       (has_edge (m_fedges M) (f_key a) (f_key b) = true -> (f_resid a = f_resid b <-> mresid m p a = mresid m p b))).
Proof. exact mfits_spec. Qed.
Print Assumptions fits_means.

(* Exactly one copy of the target block per placement, in processing order, on consecutive keys 1..N. *)
Theorem one_block_per_placement_in_order : forall ms,
  Forall (fun pm => wf_block (p_block pm)) ms ->
  let st := fold_left apply_block ms init in
  map o_key (s_nodes st) = zseq 1 (List.length (s_nodes st)) /\
  map o_name (s_nodes st) = flat_map (fun pm => map b_name (b_nodes (p_block pm))) ms.
Proof. intros ms H. exact (fold_nodes ms init eq_refl H). Qed.
Print Assumptions one_block_per_placement_in_order.

(* processing order = ascending lowest atom key, and it is a rearrangement of what was found *)
Theorem processing_order_sorted : forall found l1 a l2 b l3,
  process_order found = l1 ++ a :: l2 ++ b :: l3 -> min_key a <= min_key b.
Proof. exact process_order_sorted. Qed.
Print Assumptions processing_order_sorted.

Theorem processing_order_same_placements : forall found x, In x (process_order found) <-> In x found.
Proof. exact process_order_in. Qed.
Print Assumptions processing_order_same_placements.

(* residues are numbered consecutively (blocks of one residue; in general each copy is offset by the residue number of
   the last particle before it — merge_block_resids) *)
Theorem residues_consecutive : forall ms,
  Forall (fun pm => single_residue (p_block pm)) ms ->
  map o_resid (s_nodes (fold_left apply_block ms init)) = consecutive ms 0.
Proof. intros ms H. exact (fold_resids ms init H). Qed.
Print Assumptions residues_consecutive.

(* each particle records exactly the atoms and weights its own placement assigns to it *)
Theorem particle_records_exactly : forall ms1 pm ms2,
  Forall (fun q => wf_block (p_block q) /\ targets_in_block q) (ms1 ++ pm :: ms2) ->
  let st1 := fold_left apply_block ms1 init in
  let c := snd (merge_block st1 (p_block pm)) in
  forall n, In n (b_nodes (p_block pm)) ->
    tget (s_o2m (fold_left apply_block (ms1 ++ pm :: ms2) init)) (cget c (b_key n)) = weights_of pm c (cget c (b_key n)).
Proof. exact particle_records. Qed.
Print Assumptions particle_records_exactly.

(* particles of different placements are connected exactly through bonded constituent atoms *)
Theorem cross_edges_iff : forall m st ms x y,
  In (x, y) (cross_edges m st ms) <->
  exists p1 p2 u v, In (p1, p2) (pairs ms) /\ In u (map fst (p_m2b p1)) /\ In v (map fst (p_m2b p2)) /\
                    has_edge (bonds m) u v = true /\ In x (live st u) /\ In y (live st v) /\ x <> y.
Proof. exact cross_edges_spec. Qed.
Print Assumptions cross_edges_iff.

(* no silent loss: the unmapped-atom warning is raised iff some non-hydrogen atom belongs to no placement *)
Theorem no_silent_loss : forall m found,
  Forall nonempty_entries found ->
  (warn_unmapped (do_mapping m found) = true <->
   exists a, In a (atoms m) /\ a_isH a = false /\ forall pm, In pm found -> ~ In (a_key a) (map fst (p_m2b pm))).
Proof.
  intros m found Hne. unfold do_mapping. cbn [warn_unmapped]. rewrite existsb_exists.
  assert (Hne' : Forall nonempty_entries (process_order found)).
  { apply Forall_forall. intros x Hx. apply (proj1 (process_order_in _ _)) in Hx. rewrite Forall_forall in Hne. exact (Hne x Hx). }
  split.
  - intros (a & Ha & H). apply andb_true_iff in H as [H1 H2]. apply negb_true_iff in H1, H2. exists a. split; [exact Ha|]. split; [exact H1|].
    intros pm Hpm Hin. assert (X : zmem (a_key a) (tkeys (s_m2o (fold_left apply_block (process_order found) init))) = true).
    { apply zmem_in. apply fold_m2o_keys; [exact Hne'|]. right. exists pm. split; [apply process_order_in; exact Hpm|exact Hin]. }
    congruence.
  - intros (a & Ha & H1 & H2). exists a. split; [exact Ha|]. rewrite H1. cbn. apply negb_true_iff.
    destruct (zmem _ _) eqn:E; [|reflexivity]. exfalso. apply zmem_in in E. apply fold_m2o_keys in E; [|exact Hne'].
    destruct E as [[]|(pm & Hpm & Hin)]. apply (proj1 (process_order_in _ _)) in Hpm. exact (H2 pm Hpm Hin).
Qed.
Print Assumptions no_silent_loss.

(* overlapping placements raise the warning, and only they do *)
Theorem overlap_warned : forall m found,
  Forall nonempty_entries found ->
  (warn_overlap (do_mapping m found) = true <->
   exists l1 p1 l2 p2 l3 x, process_order found = l1 ++ p1 :: l2 ++ p2 :: l3 /\ In x (map fst (p_m2b p1)) /\ In x (map fst (p_m2b p2))).
Proof.
  intros m found Hne. unfold do_mapping. cbn [warn_overlap].
  assert (Hne' : Forall nonempty_entries (process_order found)).
  { apply Forall_forall. intros x Hx. apply (proj1 (process_order_in _ _)) in Hx. rewrite Forall_forall in Hne. exact (Hne x Hx). }
  pose proof (fun x => fold_overlap (process_order found) init x Hne') as F.
  destruct (s_overlap (fold_left apply_block (process_order found) init)) as [|x r] eqn:E; cbn.
  - split; [discriminate|]. intros (l1 & p1 & l2 & p2 & l3 & x & Eq & H1 & H2). exfalso.
    apply (proj2 (F x)). right. right. exists l1, p1, l2, p2, l3. auto.
  - split; [|reflexivity]. intros _. destruct (proj1 (F x) (or_introl eq_refl)) as [[]|[(pm & _ & _ & [])|(l1 & p1 & l2 & p2 & l3 & Eq & H1 & H2)]].
    exists l1, p1, l2, p2, l3, x. auto.
Qed.
Print Assumptions overlap_warned.

(* --- modification mappings --- *)
(* the merge loop applies the block placements in their order and the modification placements in theirs ... *)
Theorem merge_is_an_interleaving : forall fuel bs ms, (List.length bs + List.length ms <= fuel)%nat ->
  blocks_of (merge_work fuel bs ms) = bs /\ mods_of_work (merge_work fuel bs ms) = ms.
Proof. exact merge_interleaves. Qed.
Print Assumptions merge_is_an_interleaving.

(* ... and a modification placement comes before a block placement exactly when its key is below the block's lowest atom:
   a modification that refers to existing particles (key = its highest atom) waits for every block that starts at or
   below that atom. *)
Theorem modification_waits_for_its_blocks : forall fuel bs ms, (List.length bs + List.length ms <= fuel)%nat ->
  sorted_by min_key bs -> sorted_by (fun m => mod_key (fst m) (snd m)) ms ->
  forall l1 M m2m l2 b l3, merge_work fuel bs ms = l1 ++ WMod M m2m :: l2 ++ WBlock b :: l3 -> mod_key M m2m < min_key b.
Proof. exact merge_mod_before_block. Qed.
Print Assumptions modification_waits_for_its_blocks.

(* non-vacuity *)
Definition ex_atom k r n := {| a_key := k; a_resid := r; a_name := n; a_resname := 1; a_isH := false; a_chain := 1 |}.
Definition ex_mol := {| atoms := [ex_atom 10 4 1; ex_atom 11 4 2; ex_atom 12 7 1; ex_atom 13 7 2]; bonds := [(10, 11); (11, 12); (12, 13)] |}.
Definition ex_block := {| b_nodes := [{| b_key := 0; b_name := Some 9; b_resid := 1; b_cg := 1 |}]; b_edges := []; b_inters := [] |}.
Definition ex_map := {| m_from := [{| f_key := 0; f_name := 1; f_resname := 1; f_resid := 1 |}; {| f_key := 1; f_name := 2; f_resname := 1; f_resid := 1 |}];
                        m_fedges := [(0, 1)]; m_to := ex_block; m_map := [(0, [(0, 1)]); (1, [(0, 1)])] |}.
Example ex_out :
  let o := do_mapping ex_mol (map (translate ex_map) (mmatches ex_map ex_mol)) in
  map d_resid (out_beads o) = [1; 2] /\ map d_old_resid (out_beads o) = [Some 4; Some 7] /\
  map d_weights (out_beads o) = [[(10, 1); (11, 1)]; [(12, 1); (13, 1)]] /\ out_edges o = [(1, 2)] /\
  warn_overlap o = false /\ warn_unmapped o = false.
Proof. vm_compute. repeat split. Qed.
