From Coq Require Import List Bool ZArith Lia.
From V Require Import C05.Model C01.Model C01.Proofs C01.ModMap C06.Proofs.
Import ListNotations.
Open Scope Z_scope.

Definition blocks_of (ws : list work) : list pmatch := flat_map (fun w => match w with WBlock b => [b] | _ => [] end) ws.
Definition mods_of_work (ws : list work) : list (modmap * list (Z * list (Z * Z))) :=
  flat_map (fun w => match w with WMod M m => [(M, m)] | _ => [] end) ws.

(* the merge loop is an interleaving: it applies the block placements in their order and the modification placements in theirs *)
Lemma merge_interleaves fuel : forall bs ms, (List.length bs + List.length ms <= fuel)%nat ->
  blocks_of (merge_work fuel bs ms) = bs /\ mods_of_work (merge_work fuel bs ms) = ms.
Proof.
  unfold blocks_of, mods_of_work. induction fuel as [|f IH]; intros bs ms Hf.
  - destruct bs, ms; cbn in Hf; try lia. split; reflexivity.
  - destruct bs as [|b br], ms as [|m mr]; cbn [merge_work].
    + split; reflexivity.
    + destruct (IH [] mr) as [H1 H2]; [cbn in *; lia|]. cbn [flat_map app]. rewrite H1, H2. destruct m. split; reflexivity.
    + destruct (IH br []) as [H1 H2]; [cbn in *; lia|]. cbn [flat_map app]. rewrite H1, H2. split; reflexivity.
    + destruct (Z.ltb (mod_key (fst m) (snd m)) (min_key b)).
      * destruct (IH (b :: br) mr) as [H1 H2]; [cbn in *; lia|]. cbn [flat_map app]. rewrite H1, H2. destruct m. split; reflexivity.
      * destruct (IH br (m :: mr)) as [H1 H2]; [cbn in *; lia|]. cbn [flat_map app]. rewrite H1, H2. split; reflexivity.
Qed.

(* With both lists in ascending key order, a modification placement is applied before a block placement exactly when
   its key is below the block's lowest atom key: a modification that refers to existing particles (key = its highest
   atom) therefore waits until every block whose lowest atom is not above that atom has been applied. *)
Definition sorted_by {A} (key : A -> Z) (l : list A) : Prop := forall l1 a l2 b l3, l = l1 ++ a :: l2 ++ b :: l3 -> key a <= key b.

Lemma sorted_tail {A} (key : A -> Z) a l : sorted_by key (a :: l) -> sorted_by key l /\ forall b, In b l -> key a <= key b.
Proof.
  intros H. split.
  - intros l1 x l2 y l3 ->. apply (H (a :: l1) x l2 y l3). reflexivity.
  - intros b Hb. apply in_split in Hb as (l2 & l3 & ->). apply (H [] a l2 b l3). reflexivity.
Qed.

Lemma merge_mod_before_block fuel : forall bs ms, (List.length bs + List.length ms <= fuel)%nat ->
  sorted_by min_key bs -> sorted_by (fun m => mod_key (fst m) (snd m)) ms ->
  forall l1 M m2m l2 b l3, merge_work fuel bs ms = l1 ++ WMod M m2m :: l2 ++ WBlock b :: l3 -> mod_key M m2m < min_key b.
Proof.
  induction fuel as [|f IH]; intros bs ms Hf Sb Sm l1 M m2m l2 b l3 E.
  - cbn in E. destruct l1; discriminate.
  - destruct bs as [|b0 br], ms as [|m0 mr]; cbn [merge_work] in E.
    + destruct l1; discriminate.
    + (* only modifications left: no block can follow *)
      assert (X : blocks_of (merge_work (S f) [] (m0 :: mr)) = []) by (apply merge_interleaves; cbn in *; lia).
      cbn [merge_work] in X. rewrite E in X. unfold blocks_of in X. rewrite flat_map_app in X. cbn in X. rewrite flat_map_app in X. cbn in X.
      apply app_eq_nil in X as [_ X]. apply app_eq_nil in X as [_ X]. discriminate.
    + assert (X : mods_of_work (merge_work (S f) (b0 :: br) []) = []) by (apply merge_interleaves; cbn in *; lia).
      cbn [merge_work] in X. rewrite E in X. unfold mods_of_work in X. rewrite flat_map_app in X. cbn in X. apply app_eq_nil in X as [_ X]. discriminate.
    + destruct (sorted_tail _ _ _ Sb) as [Sb' Hb0]. destruct (sorted_tail _ _ _ Sm) as [Sm' Hm0].
      destruct (Z.ltb_spec (mod_key (fst m0) (snd m0)) (min_key b0)) as [Hlt|Hge].
      * destruct l1 as [|w l1].
        -- cbn [app] in E. injection E as E1 E2 E3. subst M m2m. (* the head modification: every later block has a key >= min_key b0 *)
           assert (Hb : In b (b0 :: br)).
           { assert (X : blocks_of (merge_work f (b0 :: br) mr) = b0 :: br) by (apply merge_interleaves; cbn in *; lia).
             rewrite <- X, E3. unfold blocks_of. rewrite flat_map_app. apply in_or_app. right. left. reflexivity. }
           destruct Hb as [<-|Hb]; [exact Hlt|]. specialize (Hb0 b Hb). lia.
        -- cbn [app] in E. injection E as _ E. apply (IH (b0 :: br) mr ltac:(cbn in *; lia) Sb Sm' l1 M m2m l2 b l3 E).
      * destruct l1 as [|w l1]; cbn [app] in E; [discriminate|]. injection E as _ E.
        apply (IH br (m0 :: mr) ltac:(cbn in *; lia) Sb' Sm l1 M m2m l2 b l3 E).
Qed.
