(* C01 — modification mappings (do_mapping.py: modification_matches l.222-292, cover l.166-200, ptm_resname_match
   l.139-163, apply_mod_mapping l.376-484, the merge loop of do_mapping l.569-610).
   Atoms carry, besides the attributes of C01/Model.v, a PTM flag and the list of modifications they are labelled with
   (given as two side tables so that the block-mapping model is used unchanged). *)
From Coq Require Import List Bool ZArith Lia.
From V Require Import C05.Model C01.Model.
Import ListNotations.
Open Scope Z_scope.

Record mfnode := { mf_key : Z; mf_name : Z; mf_resname : option Z; mf_ptm : bool; mf_mods : list Z }.
Record mtnode := { mt_key : Z; mt_name : Z; mt_new : bool (* PTM_atom: a particle the modification adds *); mt_rename : option Z }.
Record modmap := { mm_names : list Z;                                   (* the modifications this mapping accounts for *)
                   mm_from : list mfnode; mm_fedges : list (Z * Z);
                   mm_to : list mtnode; mm_tedges : list (Z * Z); mm_tinters : list (Z * (list Z * Z));
                   mm_map : list (Z * list (Z * Z)) }.

Record labelled := { l_mol : molecule; l_ptm : list Z; l_mods : list (Z * list Z) }.   (* atom -> its 'modifications' (absent = attribute not set) *)

Definition mods_of (L : labelled) (k : Z) : option (list Z) :=
  match find (fun p => Z.eqb (fst p) k) (l_mods L) with Some p => Some (snd p) | None => None end.

(* ---------- which mappings are needed: groups of labelled atoms and an exact cover of their modification names ---------- *)
Definition labelled_atoms (L : labelled) : list Z :=
  map a_key (filter (fun a => match mods_of L (a_key a) with Some (_ :: _) => true | _ => false end) (atoms (l_mol L))).

Definition lnbrs (L : labelled) (k : Z) : list Z :=
  filter (fun x => zmem x (labelled_atoms L))
         (flat_map (fun e => (if Z.eqb (fst e) k then [snd e] else []) ++ (if Z.eqb (snd e) k then [fst e] else [])) (bonds (l_mol L))).

Fixpoint closure (fuel : nat) (L : labelled) (seen : list Z) : list Z :=
  match fuel with
  | O => seen
  | S f => match filter (fun x => negb (zmem x seen)) (flat_map (lnbrs L) seen) with
           | [] => seen
           | x :: _ => closure f L (seen ++ [x])
           end
  end.

Fixpoint components (fuel : nat) (L : labelled) (left : list Z) : list (list Z) :=
  match fuel with
  | O => []
  | S f => match left with
           | [] => []
           | x :: _ => let c := closure (List.length (labelled_atoms L)) L [x] in
                       c :: components f L (filter (fun y => negb (zmem y c)) left)
           end
  end.

Fixpoint dedup (l : list Z) : list Z := match l with [] => [] | x :: r => if zmem x r then dedup r else x :: dedup r end.

Definition group_names (L : labelled) (grp : list Z) : list Z :=
  dedup (flat_map (fun k => match mods_of L k with Some ms => ms | None => [] end) grp).

Fixpoint remove_one (x : Z) (l : list Z) : list Z := match l with [] => [] | y :: r => if Z.eqb x y then r else y :: remove_one x r end.

(* cover (l.166-200): the first option all of whose items are still to be covered, such that the rest can be covered with
   this and the later options *)
Fixpoint cover_names (fuel : nat) (to_cover : list Z) (options : list (list Z)) : option (list (list Z)) :=
  match to_cover with
  | [] => Some []
  | _ :: _ =>
    match fuel with
    | O => None
    | S f =>
      (fix try (opts : list (list Z)) : option (list (list Z)) :=
         match opts with
         | [] => None
         | o :: rest =>
             if forallb (fun i => zmem i to_cover) o then
               match cover_names f (fold_left (fun l i => remove_one i l) o to_cover) opts with
               | Some r => Some (o :: r)
               | None => try rest
               end
             else try rest
         end) options
    end
  end.

(* stable sort of the known name tuples by decreasing length (sorted(..., key=len, reverse=True) keeps the order of equal lengths) *)
Fixpoint insert_len (x : list Z) (l : list (list Z)) : list (list Z) :=
  match l with [] => [x] | y :: r => if Nat.ltb (List.length x) (List.length y) then y :: insert_len x r else x :: y :: r end.
Definition by_len_desc (l : list (list Z)) : list (list Z) := fold_right insert_len [] l.

Definition needed (L : labelled) (maps : list modmap) : list (list Z) * nat (* groups without a cover: warnings *) :=
  let groups := components (S (List.length (labelled_atoms L))) L (labelled_atoms L) in
  let opts := by_len_desc (map mm_names maps) in
  fold_left (fun acc g =>
     let names := group_names L g in
     match cover_names (S (List.length names)) names opts with
     | Some c => (fst acc ++ filter (fun o => negb (existsb (list_eqbZ o) (fst acc))) c, snd acc)
     | None => (fst acc, S (snd acc))
     end) groups ([], O).

(* ---------- where a modification mapping fits (ptm_resname_match, induced sub-graph) ---------- *)
Definition mcandidates (L : labelled) (n : mfnode) : list Z :=
  map a_key (filter (fun a =>
      Z.eqb (a_name a) (mf_name n)
      && (match mf_resname n with Some r => Z.eqb (a_resname a) r | None => true end)
      && (if mf_ptm n then zmem (a_key a) (l_ptm L) else true)
      && (match mods_of L (a_key a) with Some ms => forallb (fun q => zmem q ms) (mf_mods n) | None => true end))
    (atoms (l_mol L))).

Definition mm_placements (M : modmap) (L : labelled) : list placement :=
  filter (fun p => forallb (fun ab => match pget p (mf_key (fst ab)), pget p (mf_key (snd ab)) with
                                      | Some x, Some y => Bool.eqb (has_edge (mm_fedges M) (mf_key (fst ab)) (mf_key (snd ab)))
                                                                   (has_edge (bonds (l_mol L)) x y)
                                      | _, _ => false end) (list_prod (mm_from M) (mm_from M)))
         (map (combine (map mf_key (mm_from M))) (inj_cands (map (mcandidates L) (mm_from M)) [])).

Definition mtranslate (M : modmap) (p : placement) : list (Z * list (Z * Z)) :=
  map (fun kv => (snd kv, match find (fun e => Z.eqb (fst e) (fst kv)) (mm_map M) with Some e => snd e | None => [] end)) p.

(* ---------- applying one modification placement (apply_mod_mapping) ---------- *)
Definition targets_of (st : ostate) (m2m : list (Z * list (Z * Z))) (modnode : Z) : list Z :=
  dedup (flat_map (fun ml => if existsb (fun bw => Z.eqb (fst bw) modnode) (snd ml) then map fst (tget (s_m2o st) (fst ml)) else []) m2m).

Definition name_of (st : ostate) (k : Z) : option (option Z) :=
  match find (fun n => Z.eqb (o_key n) k) (s_nodes st) with Some n => Some (o_name n) | None => None end.

Definition set_name (st : ostate) (k : Z) (nm : Z) : ostate :=
  {| s_nodes := map (fun n => if Z.eqb (o_key n) k then {| o_key := o_key n; o_name := Some nm; o_resid := o_resid n; o_cg := o_cg n |} else n) (s_nodes st);
     s_edges := s_edges st; s_inters := s_inters st; s_m2o := s_m2o st; s_o2m := s_o2m st; s_overlap := s_overlap st; s_n21 := s_n21 st |}.

(* place the particles of the modification: new ones after the last key, existing ones found by name among the particles
   the matched atoms already contribute to; None = ValueError "No node found in molecule with atomname ..." *)
Fixpoint place_mod (st : ostate) (m2m : list (Z * list (Z * Z))) (nodes : list mtnode) (acc : list (Z * Z)) (fresh : list Z)
  : option (ostate * list (Z * Z) * list Z) :=
  match nodes with
  | [] => Some (st, acc, fresh)
  | n :: r =>
      if mt_new n then
        (* a new particle takes the residue number and charge group of the particle added last; on an empty output it
           has neither (merge_molecule then reads the default 1, the final residue number comes from its atoms) *)
        match last_node (s_nodes st) with
        | None =>
            let st' := {| s_nodes := [{| o_key := 0; o_name := Some (mt_name n); o_resid := 1; o_cg := 1 |}];
                          s_edges := s_edges st; s_inters := s_inters st; s_m2o := s_m2o st; s_o2m := s_o2m st;
                          s_overlap := s_overlap st; s_n21 := s_n21 st |} in
            place_mod st' m2m r (acc ++ [(mt_key n, 0)]) (fresh ++ [0])
        | Some l =>
            let k := fold_left Z.max (map o_key (s_nodes st)) 0 + 1 in
            let st' := {| s_nodes := s_nodes st ++ [{| o_key := k; o_name := Some (mt_name n); o_resid := o_resid l; o_cg := o_cg l |}];
                          s_edges := s_edges st; s_inters := s_inters st; s_m2o := s_m2o st; s_o2m := s_o2m st;
                          s_overlap := s_overlap st; s_n21 := s_n21 st |} in
            place_mod st' m2m r (acc ++ [(mt_key n, k)]) fresh
        end
      else
        match find (fun o => match name_of st o with Some (Some nm) => Z.eqb nm (mt_name n) | _ => false end) (targets_of st m2m (mt_key n)) with
        | None => None
        | Some o => let st' := match mt_rename n with Some nm => set_name st o nm | None => st end in
                    place_mod st' m2m r (acc ++ [(mt_key n, o)]) fresh
        end
  end.

Definition add_or_replace (l : list (Z * (list Z * Z))) (i : Z * (list Z * Z)) : list (Z * (list Z * Z)) :=
  if existsb (fun j => Z.eqb (fst j) (fst i) && list_eqbZ (fst (snd j)) (fst (snd i))) l
  then map (fun j => if Z.eqb (fst j) (fst i) && list_eqbZ (fst (snd j)) (fst (snd i)) then i else j) l
  else l ++ [i].

Definition apply_mod (st : ostate) (M : modmap) (m2m : list (Z * list (Z * Z))) : option (ostate * list Z) :=
  match place_mod st m2m (mm_to M) [] [] with
  | None => None
  | Some (st1, c, fresh) =>
      let all := flat_map (fun ml => map (fun bw => (fst ml, cget c (fst bw), snd bw)) (snd ml)) m2m in
      Some ({| s_nodes := s_nodes st1;
               s_edges := fold_left (fun es e => if has_edge es (cget c (fst e)) (cget c (snd e)) then es else es ++ [(cget c (fst e), cget c (snd e))])
                                    (mm_tedges M) (s_edges st1);
               s_inters := fold_left (fun l ti => add_or_replace l (fst ti, (map (cget c) (fst (snd ti)), snd (snd ti)))) (mm_tinters M) (s_inters st1);
               s_m2o := fold_left (fun t x => tset t (fst (fst x)) (snd (fst x)) (snd x)) all (s_m2o st1);
               s_o2m := fold_left (fun t x => tset t (snd (fst x)) (fst (fst x)) (snd x)) all (s_o2m st1);
               s_overlap := s_overlap st1; s_n21 := s_n21 st1 |}, fresh)
  end.

(* ---------- the merge loop ---------- *)
Inductive work := WBlock (pm : pmatch) | WMod (M : modmap) (m2m : list (Z * list (Z * Z))).

Definition max_key (m2m : list (Z * list (Z * Z))) : Z := match map fst m2m with [] => 0 | k :: r => fold_left Z.max r k end.
Definition min_key2 (m2m : list (Z * list (Z * Z))) : Z := match map fst m2m with [] => 0 | k :: r => fold_left Z.min r k end.

(* mod_sort_key: the highest atom key if the placement touches a particle that must already exist, else the lowest *)
Definition mod_key (M : modmap) (m2m : list (Z * list (Z * Z))) : Z :=
  let touched := flat_map (fun ml => map fst (snd ml)) m2m in
  if existsb (fun n => zmem (mt_key n) touched && negb (mt_new n)) (mm_to M) then max_key m2m else min_key2 m2m.

(* both lists are sorted ascending here (the code sorts descending and pops from the end) *)
Fixpoint merge_work (fuel : nat) (bs : list pmatch) (ms : list (modmap * list (Z * list (Z * Z)))) : list work :=
  match fuel with
  | O => []
  | S f =>
      match bs, ms with
      | [], [] => []
      | [], m :: mr => WMod (fst m) (snd m) :: merge_work f [] mr
      | b :: br, [] => WBlock b :: merge_work f br []
      | b :: br, m :: mr => if Z.ltb (mod_key (fst m) (snd m)) (min_key b) then WMod (fst m) (snd m) :: merge_work f bs mr
                            else WBlock b :: merge_work f br ms
      end
  end.

Fixpoint insert_mod (x : modmap * list (Z * list (Z * Z))) (l : list (modmap * list (Z * list (Z * Z)))) :=
  match l with
  | [] => [x]
  | y :: r => if Z.leb (mod_key (fst x) (snd x)) (mod_key (fst y) (snd y)) then x :: y :: r else y :: insert_mod x r
  end.
Definition mod_order (found : list (modmap * list (Z * list (Z * Z)))) := fold_right insert_mod [] (List.rev found).

Definition run_work (ws : list work) : option (ostate * list Z) :=
  fold_left (fun acc w => match acc with
                          | None => None
                          | Some (st, fresh) =>
                              match w with
                              | WBlock pm => Some (apply_block st pm, fresh)
                              | WMod M m2m => match apply_mod st M m2m with Some (st', f) => Some (st', fresh ++ f) | None => None end
                              end
                          end) ws (Some (init, [])).

Definition work_m2b (w : work) : list (Z * list (Z * Z)) := match w with WBlock pm => p_m2b pm | WMod _ m2m => m2m end.

(* do_mapping with modification placements; None = the ValueError of apply_mod_mapping *)
Definition do_mapping_mods (m : molecule) (found : list pmatch) (mfound : list (modmap * list (Z * list (Z * Z)))) : option output :=
  let ws := merge_work (S (List.length found + List.length mfound)) (process_order found) (mod_order mfound) in
  match run_work ws with
  | None => None
  | Some (st, fresh) =>
      let beads := map (fun n =>
          let w := tget (s_o2m st) (o_key n) in
          let first := match w with (k, _) :: _ => afind m k | [] => None end in
          {| d_key := o_key n; d_name := o_name n;
             d_resid := if zmem (o_key n) fresh then match first with Some a => a_resid a | None => 0 end else o_resid n;
             d_cg := if zmem (o_key n) fresh then 0 else o_cg n; d_weights := w;
             d_chain := option_map a_chain first; d_old_resid := option_map a_resid first |}) (s_nodes st) in
      let gone := map d_key (filter (fun b => match d_name b with None => true | Some _ => false end) beads) in
      let keep2 := fun e : Z * Z => negb (zmem (fst e) gone) && negb (zmem (snd e) gone) in
      let as_matches := map (fun w => {| p_m2b := work_m2b w; p_block := {| b_nodes := []; b_edges := []; b_inters := [] |} |}) ws in
      Some {| out_beads := filter (fun b => negb (zmem (d_key b) gone)) beads;
              out_edges := filter keep2 (s_edges st ++ cross_edges m st as_matches);
              out_inters := filter (fun ti => negb (existsb (fun a => zmem a gone) (fst (snd ti)))) (s_inters st);
              warn_overlap := negb (match s_overlap st with [] => true | _ => false end);
              warn_unmapped := existsb (fun a => negb (a_isH a) && negb (zmem (a_key a) (tkeys (s_m2o st)))) (atoms m) |}
  end.
