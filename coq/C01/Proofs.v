From Coq Require Import List Bool ZArith Lia.
From V Require Import C05.Model C05.Proofs C01.Model.
Import ListNotations.
Open Scope Z_scope.

(* ================= stage 1 ================= *)
Lemma inj_cands_spec cands : forall used l,
  In l (inj_cands cands used) <-> (Forall2 (fun x c => In x c) l cands /\ NoDup l /\ forall x, In x l -> ~ In x used).
Proof.
  induction cands as [|c r IH]; intros used l; cbn [inj_cands].
  - split.
    + intros [<-|[]]. split; [constructor|]. split; [constructor|intros x []].
    + intros (H & _). inversion H. left. reflexivity.
  - rewrite in_flat_map. split.
    + intros (x & Hx & H). destruct (existsb (Z.eqb x) used) eqn:E; [destruct H|].
      apply in_map_iff in H as (t & <- & Ht). apply IH in Ht as (F & Hnd & Hd). split; [constructor; assumption|]. split.
      * constructor; [|exact Hnd]. intros Hin. apply (Hd x Hin). left. reflexivity.
      * intros y [<-|Hy] Hu.
        -- assert (X : existsb (Z.eqb x) used = true) by (apply existsb_exists; exists x; split; [exact Hu|apply Z.eqb_refl]). congruence.
        -- apply (Hd y Hy). right. exact Hu.
    + intros (F & Hnd & Hd). inversion F as [|x c' t r' Hx Ft]; subst. exists x. split; [exact Hx|].
      destruct (existsb (Z.eqb x) used) eqn:E.
      * exfalso. apply existsb_exists in E as (y & Hy & Ey). apply Z.eqb_eq in Ey. subst y. apply (Hd x (or_introl eq_refl) Hy).
      * apply in_map. apply IH. inversion Hnd as [|? ? Hx' Hnd']; subst. split; [exact Ft|]. split; [exact Hnd'|].
        intros y Hy [<-|Hu]; [contradiction|]. apply (Hd y (or_intror Hy) Hu).
Qed.

Lemma mplacements_spec M m p :
  In p (mplacements M m) <->
  exists img, p = combine (map f_key (m_from M)) img /\ NoDup img /\
              Forall2 (fun k n => exists a, In a (atoms m) /\ a_key a = k /\ a_name a = f_name n /\ a_resname a = f_resname n) img (m_from M).
Proof.
  unfold mplacements. rewrite in_map_iff.
  assert (G : forall img, Forall2 (fun x c => In x c) img (map (candidates m) (m_from M)) <->
              Forall2 (fun k n => exists a, In a (atoms m) /\ a_key a = k /\ a_name a = f_name n /\ a_resname a = f_resname n) img (m_from M)).
  { intros img. revert img. induction (m_from M) as [|n r IH]; intros img; cbn [map].
    - split; intros H; inversion H; constructor.
    - split; intros H; inversion H as [|x c t r' Hx Ht]; subst; constructor; try (apply IH; exact Ht).
      + unfold candidates in Hx. apply in_map_iff in Hx as (a & <- & Ha). apply filter_In in Ha as [Ha E].
        apply andb_true_iff in E as [E1 E2]. apply Z.eqb_eq in E1, E2. exists a. auto.
      + destruct Hx as (a & Ha & <- & E1 & E2). unfold candidates. apply in_map. apply filter_In. split; [exact Ha|].
        rewrite E1, E2, !Z.eqb_refl. reflexivity. }
  split.
  - intros (img & <- & H). apply inj_cands_spec in H as (F & Hnd & _). exists img. split; [reflexivity|]. split; [exact Hnd|]. apply G. exact F.
  - intros (img & -> & Hnd & F). exists img. split; [reflexivity|]. apply inj_cands_spec. split; [apply G; exact F|]. split; [exact Hnd|intros x _ []].
Qed.

Lemma mmatches_spec M m p : In p (mmatches M m) <-> In p (mplacements M m) /\ mfits M m p = true.
Proof. unfold mmatches. apply filter_In. Qed.

Lemma mfits_spec M m p :
  mfits M m p = true ->
  (forall n, In n (m_from M) -> exists k a, pget p (f_key n) = Some k /\ afind m k = Some a /\ a_name a = f_name n /\ a_resname a = f_resname n) /\
  (forall a b, In a (m_from M) -> In b (m_from M) ->
     exists x y, pget p (f_key a) = Some x /\ pget p (f_key b) = Some y /\
       has_edge (m_fedges M) (f_key a) (f_key b) = has_edge (bonds m) x y /\
       (has_edge (m_fedges M) (f_key a) (f_key b) = true ->
          (f_resid a = f_resid b <-> mresid m p a = mresid m p b))).
Proof.
  unfold mfits. rewrite andb_true_iff. intros [H1 H2]. split.
  - intros n Hn. rewrite forallb_forall in H1. specialize (H1 n Hn). unfold mnode_ok in H1.
    destruct (pget p (f_key n)) as [k|]; [|discriminate]. destruct (afind m k) as [a|] eqn:Ea; [|discriminate].
    apply andb_true_iff in H1 as [E1 E2]. apply Z.eqb_eq in E1, E2. exists k, a. auto.
  - intros a b Ha Hb. unfold medges_ok in H2. rewrite forallb_forall in H2.
    specialize (H2 (a, b) (proj2 (in_prod_iff _ _ a b) (conj Ha Hb))). cbn [fst snd] in H2.
    destruct (pget p (f_key a)) as [x|]; [|discriminate]. destruct (pget p (f_key b)) as [y|]; [|discriminate].
    apply andb_true_iff in H2 as [E1 E2]. apply eqb_prop in E1. exists x, y.
    split; [reflexivity|]. split; [reflexivity|]. split; [exact E1|].
    intros He. rewrite He in E2. cbn in E2. apply eqb_prop in E2. rewrite <- !Z.eqb_eq. rewrite E2. tauto.
Qed.

(* ================= tables ================= *)
Lemma dset_keys l k w x : In x (map fst (dset l k w)) <-> x = k \/ In x (map fst l).
Proof.
  induction l as [|[j v] r IH]; cbn; [intuition|].
  destruct (Z.eqb_spec j k) as [->|Hne]; cbn; [intuition|]. rewrite IH. intuition.
Qed.

Lemma tset_keys t k k2 w x : In x (tkeys (tset t k k2 w)) <-> x = k \/ In x (tkeys t).
Proof.
  unfold tkeys. induction t as [|[j l] r IH]; cbn; [intuition|].
  destruct (Z.eqb_spec j k) as [->|Hne]; cbn; [intuition|]. rewrite IH. intuition.
Qed.

Lemma tget_tset t k k2 w k' : tget (tset t k k2 w) k' = if Z.eqb k k' then dset (tget t k) k2 w else tget t k'.
Proof.
  induction t as [|[j l] r IH]; cbn.
  - destruct (Z.eqb_spec k k'); reflexivity.
  - destruct (Z.eqb_spec j k) as [->|Hne]; cbn.
    + destruct (Z.eqb_spec k k'); reflexivity.
    + rewrite IH. destruct (Z.eqb_spec j k') as [->|Hne']; [|reflexivity].
      destruct (Z.eqb_spec k k'); [congruence|reflexivity].
Qed.

Lemma fold_tset_keys (all : list (Z * Z * Z)) : forall t x,
  In x (tkeys (fold_left (fun t e => tset t (fst (fst e)) (snd (fst e)) (snd e)) all t)) <->
  In x (tkeys t) \/ In x (map (fun e => fst (fst e)) all).
Proof.
  induction all as [|e r IH]; intros t x; cbn [fold_left map In]; [intuition|].
  rewrite IH, tset_keys. intuition.
Qed.

(* the table entry of k after a run of assignments depends only on the assignments to k *)
Lemma fold_tset_get (all : list (Z * Z * Z)) : forall t k,
  tget (fold_left (fun t e => tset t (fst (fst e)) (snd (fst e)) (snd e)) all t) k =
  fold_left (fun l e => dset l (snd (fst e)) (snd e)) (filter (fun e => Z.eqb (fst (fst e)) k) all) (tget t k).
Proof.
  induction all as [|e r IH]; intros t k; cbn [fold_left filter]; [reflexivity|].
  rewrite IH, tget_tset. destruct (Z.eqb_spec (fst (fst e)) k) as [->|Hne]; cbn [fold_left]; reflexivity.
Qed.

(* ================= merge_block: keys, order, copies ================= *)
Fixpoint zseq (k : Z) (n : nat) : list Z := match n with O => [] | S n' => k :: zseq (k + 1) n' end.

Lemma zseq_app k n m : zseq k (n + m) = zseq k n ++ zseq (k + Z.of_nat n) m.
Proof.
  revert k. induction n as [|n IH]; intros k.
  - cbn. replace (k + 0) with k by lia. reflexivity.
  - cbn [zseq Nat.add app]. rewrite IH. replace (k + 1 + Z.of_nat n) with (k + Z.of_nat (S n)) by lia. reflexivity.
Qed.

Lemma number_snd ns : forall k, map snd (number ns k) = zseq k (List.length ns).
Proof. induction ns as [|n r IH]; intros k; cbn; [reflexivity|]. f_equal. apply IH. Qed.

Lemma number_fst ns : forall k, map fst (number ns k) = map b_key ns.
Proof. induction ns as [|n r IH]; intros k; cbn; [reflexivity|]. f_equal. apply IH. Qed.

(* with distinct keys in the block, the i-th particle receives the i-th new key *)
Lemma number_cget ns : forall k, NoDup (map b_key ns) -> map (fun n => cget (number ns k) (b_key n)) ns = zseq k (List.length ns).
Proof.
  induction ns as [|n r IH]; intros k Hnd; cbn [map number List.length zseq]; [reflexivity|].
  inversion Hnd as [|? ? Hn Hr]; subst. f_equal.
  - unfold cget. cbn. rewrite Z.eqb_refl. reflexivity.
  - rewrite <- (IH (k + 1) Hr). apply map_ext_in. intros a Ha. unfold cget. cbn.
    destruct (Z.eqb_spec (b_key n) (b_key a)) as [E|]; [|reflexivity]. exfalso. apply Hn. rewrite E. apply in_map. exact Ha.
Qed.

Definition keys_ok (st : ostate) : Prop := map o_key (s_nodes st) = zseq 1 (List.length (s_nodes st)).

Lemma last_node_key l : map o_key l = zseq 1 (List.length l) ->
  match last_node l with Some n => o_key n = Z.of_nat (List.length l) | None => l = [] end.
Proof.
  assert (G : forall l k, map o_key l = zseq k (List.length l) ->
              match last_node l with Some n => o_key n = k + Z.of_nat (List.length l) - 1 | None => l = [] end).
  { clear. induction l as [|a r IH]; intros k H; [reflexivity|]. cbn in H. injection H as H1 H2.
    destruct r as [|b r']; [cbn; lia|]. specialize (IH (k + 1) H2). cbn [last_node] in *.
    destruct (match r' with [] => Some b | _ :: _ => last_node r' end); [|discriminate]. cbn [List.length] in *. lia. }
  intros H. specialize (G l 1 H). destruct (last_node l); [lia|exact G].
Qed.

Definition wf_block (B : block) : Prop := NoDup (map b_key (b_nodes B)).

Lemma merge_block_nodes st B :
  keys_ok st -> wf_block B ->
  keys_ok (fst (merge_block st B)) /\
  map o_name (s_nodes (fst (merge_block st B))) = map o_name (s_nodes st) ++ map b_name (b_nodes B) /\
  map (fun n => cget (snd (merge_block st B)) (b_key n)) (b_nodes B) = zseq (Z.of_nat (List.length (s_nodes st)) + 1) (List.length (b_nodes B)).
Proof.
  intros Hk Hwf. unfold merge_block. pose proof (last_node_key _ Hk) as Hl.
  destruct (last_node (s_nodes st)) as [n|] eqn:E.
  - cbn [fst snd s_nodes]. rewrite Hl. split; [|split].
    + unfold keys_ok. cbn [s_nodes]. rewrite map_app, app_length, map_length, zseq_app, map_map. cbn [o_key].
      rewrite number_cget by exact Hwf. f_equal; [exact Hk|f_equal; lia].
    + rewrite map_app, map_map. reflexivity.
    + apply number_cget. exact Hwf.
  - cbn [fst snd s_nodes]. rewrite Hl. split; [|split].
    + unfold keys_ok. cbn [s_nodes app List.length]. rewrite map_map, map_length. cbn [o_key]. apply number_cget. exact Hwf.
    + cbn. rewrite map_map. reflexivity.
    + apply number_cget. exact Hwf.
Qed.

Lemma apply_block_nodes st pm : s_nodes (apply_block st pm) = s_nodes (fst (merge_block st (p_block pm))).
Proof. unfold apply_block. destruct (merge_block st (p_block pm)) as [st1 c]. reflexivity. Qed.

(* every placement yields exactly one copy of its block's particles, in processing order, on consecutive keys *)
Lemma fold_nodes ms : forall st, keys_ok st -> Forall (fun pm => wf_block (p_block pm)) ms ->
  keys_ok (fold_left apply_block ms st) /\
  map o_name (s_nodes (fold_left apply_block ms st)) = map o_name (s_nodes st) ++ flat_map (fun pm => map b_name (b_nodes (p_block pm))) ms.
Proof.
  induction ms as [|pm r IH]; intros st Hk Hwf; cbn [fold_left flat_map]; [rewrite app_nil_r; auto|].
  inversion Hwf as [|? ? H1 H2]; subst. destruct (merge_block_nodes st (p_block pm) Hk H1) as (K1 & K2 & _).
  assert (Hk' : keys_ok (apply_block st pm)) by (unfold keys_ok; rewrite apply_block_nodes; exact K1).
  destruct (IH (apply_block st pm) Hk' H2) as [I1 I2]. split; [exact I1|].
  rewrite I2, apply_block_nodes, K2, app_assoc. reflexivity.
Qed.

(* residue numbers: each copy is offset by the residue number of the last particle before it *)
Lemma merge_block_resids st B :
  map o_resid (s_nodes (fst (merge_block st B))) =
  map o_resid (s_nodes st) ++ map (fun n => b_resid n + match last_node (s_nodes st) with Some l => o_resid l | None => 0 end) (b_nodes B).
Proof. unfold merge_block. destruct (last_node (s_nodes st)); cbn [fst s_nodes]; rewrite map_app, map_map; reflexivity. Qed.

(* ================= who is covered ================= *)
Definition nonempty_entries (pm : pmatch) : Prop := forall u l, In (u, l) (p_m2b pm) -> l <> [].

Lemma apply_block_m2o_keys st pm x : nonempty_entries pm ->
  In x (tkeys (s_m2o (apply_block st pm))) <-> In x (tkeys (s_m2o st)) \/ In x (map fst (p_m2b pm)).
Proof.
  intros Hne. unfold apply_block. destruct (merge_block st (p_block pm)) as [st1 c]. cbn [s_m2o].
  rewrite fold_tset_keys. unfold assignments. rewrite map_app, in_app_iff. split.
  - intros [H|[H|H]]; [left; exact H| |].
    + right. apply in_map_iff in H as (e & <- & He). apply in_flat_map in He as (ml & Hml & He).
      apply in_map_iff in He as (bw & <- & _). cbn. apply in_map. exact Hml.
    + right. apply in_map_iff in H as (e & <- & He). apply in_flat_map in He as (s & _ & He).
      apply in_map_iff in He as (ml & <- & Hml). cbn. apply in_map. exact Hml.
  - intros [H|H]; [left; exact H|]. right. left. apply in_map_iff in H as ([u l] & <- & Hul).
    destruct l as [|bw l'] eqn:El; [exfalso; eapply Hne; eauto|].
    apply in_map_iff. exists (u, cget c (fst bw), snd bw). split; [reflexivity|].
    apply in_flat_map. exists (u, bw :: l'). split; [exact Hul|]. left. reflexivity.
Qed.

Lemma fold_m2o_keys ms : forall st x, Forall nonempty_entries ms ->
  In x (tkeys (s_m2o (fold_left apply_block ms st))) <-> In x (tkeys (s_m2o st)) \/ exists pm, In pm ms /\ In x (map fst (p_m2b pm)).
Proof.
  induction ms as [|pm r IH]; intros st x Hne; cbn [fold_left].
  - split; [auto|intros [H|(pm & [] & _)]; exact H].
  - inversion Hne as [|? ? H1 H2]; subst. rewrite IH by exact H2. rewrite apply_block_m2o_keys by exact H1. split.
    + intros [[H|H]|(q & Hq & H)]; [left; exact H|right; exists pm; split; [left; reflexivity|exact H]|right; exists q; split; [right; exact Hq|exact H]].
    + intros [H|(q & [<-|Hq] & H)]; [left; left; exact H|left; right; exact H|right; exists q; auto].
Qed.

Lemma apply_block_overlap st pm :
  s_overlap (apply_block st pm) = s_overlap st ++ filter (fun k => zmem k (tkeys (s_m2o st))) (map fst (p_m2b pm)).
Proof. unfold apply_block. destruct (merge_block st (p_block pm)). reflexivity. Qed.

Lemma zmem_in k l : zmem k l = true <-> In k l.
Proof. unfold zmem. rewrite existsb_exists. split; [intros (x & Hx & E); apply Z.eqb_eq in E; subst; exact Hx|intros H; exists k; split; [exact H|apply Z.eqb_refl]]. Qed.

(* an atom is reported as overlapping iff two different placements (in processing order) both use it *)
Lemma fold_overlap ms : forall st x, Forall nonempty_entries ms ->
  In x (s_overlap (fold_left apply_block ms st)) <->
  In x (s_overlap st) \/
  (exists pm, In pm ms /\ In x (map fst (p_m2b pm)) /\ In x (tkeys (s_m2o st))) \/
  (exists l1 p1 l2 p2 l3, ms = l1 ++ p1 :: l2 ++ p2 :: l3 /\ In x (map fst (p_m2b p1)) /\ In x (map fst (p_m2b p2))).
Proof.
  induction ms as [|pm r IH]; intros st x Hne; cbn [fold_left].
  - split; [auto|]. intros [H|[(pm & [] & _)|(l1 & p1 & l2 & p2 & l3 & E & _)]]; [exact H|]. destruct l1; discriminate.
  - inversion Hne as [|? ? H1 H2]; subst. rewrite IH by exact H2. rewrite apply_block_overlap, in_app_iff, filter_In, zmem_in. split.
    + intros [[H|[H3 H4]]|[(q & Hq & Hx & Hk)|(l1 & p1 & l2 & p2 & l3 & -> & Hx1 & Hx2)]].
      * left; exact H.
      * right; left. exists pm. split; [left; reflexivity|auto].
      * apply (proj1 (apply_block_m2o_keys st pm x H1)) in Hk. destruct Hk as [Hk|Hk].
        -- right; left. exists q. split; [right; exact Hq|auto].
        -- right; right. apply in_split in Hq as (a & b & ->). exists [], pm, a, q, b. auto.
      * right; right. exists (pm :: l1), p1, l2, p2, l3. auto.
    + intros [H|[(q & [<-|Hq] & Hx & Hk)|(l1 & p1 & l2 & p2 & l3 & E & Hx1 & Hx2)]].
      * left; left; exact H.
      * left; right. auto.
      * right; left. exists q. split; [exact Hq|]. split; [exact Hx|]. apply apply_block_m2o_keys; [exact H1|left; exact Hk].
      * destruct l1 as [|a l1]; injection E as -> ->.
        -- right; left. exists p2. split; [apply in_or_app; right; left; reflexivity|]. split; [exact Hx2|].
           apply apply_block_m2o_keys; [exact H1|right; exact Hx1].
        -- right; right. exists l1, p1, l2, p2, l3. auto.
Qed.

(* ================= edges between placements ================= *)
Lemma in_pairs {A} (l : list A) x y : In (x, y) (pairs l) <-> exists l1 l2 l3, l = l1 ++ x :: l2 ++ y :: l3.
Proof.
  induction l as [|a r IH]; cbn.
  - split; [intros []|intros (l1 & l2 & l3 & E); destruct l1; discriminate].
  - rewrite in_app_iff, in_map_iff, IH. split.
    + intros [(b & [= <- <-] & Hb)|(l1 & l2 & l3 & ->)].
      * apply in_split in Hb as (l2 & l3 & ->). exists [], l2, l3. reflexivity.
      * exists (a :: l1), l2, l3. reflexivity.
    + intros (l1 & l2 & l3 & E). destruct l1 as [|b l1]; injection E as -> ->.
      * left. exists y. split; [reflexivity|]. apply in_or_app. right. left. reflexivity.
      * right. exists l1, l2, l3. reflexivity.
Qed.

Lemma cross_edges_spec m st ms x y :
  In (x, y) (cross_edges m st ms) <->
  exists p1 p2 u v, In (p1, p2) (pairs ms) /\ In u (map fst (p_m2b p1)) /\ In v (map fst (p_m2b p2)) /\
                    has_edge (bonds m) u v = true /\ In x (live st u) /\ In y (live st v) /\ x <> y.
Proof.
  unfold cross_edges. rewrite in_flat_map. split.
  - intros ([p1 p2] & Hp & H). cbn [fst snd] in H. apply in_flat_map in H as ([u v] & Huv & H). cbn [fst snd] in H.
    apply in_flat_map in H as (x' & Hx & H). apply in_flat_map in H as (y' & Hy & H).
    destruct (Z.eqb_spec x' y') as [|Hne]; [destruct H|]. destruct H as [[= <- <-]|[]].
    unfold edges_between in Huv. apply in_flat_map in Huv as (u' & Hu & H). apply in_map_iff in H as (v' & E & Hv). injection E as <- <-.
    apply filter_In in Hv as [Hv He]. exists p1, p2, u', v'. auto 10.
  - intros (p1 & p2 & u & v & Hp & Hu & Hv & He & Hx & Hy & Hne). exists (p1, p2). split; [exact Hp|]. cbn [fst snd].
    apply in_flat_map. exists (u, v). split.
    + unfold edges_between. apply in_flat_map. exists u. split; [exact Hu|]. apply in_map. apply filter_In. auto.
    + cbn [fst snd]. apply in_flat_map. exists x. split; [exact Hx|]. apply in_flat_map. exists y. split; [exact Hy|].
      destruct (Z.eqb_spec x y); [contradiction|left; reflexivity].
Qed.

(* ================= what each particle records ================= *)
Lemma fold_tset_get' (all : list (Z * Z * Z)) : forall t o,
  tget (fold_left (fun t e => tset t (snd (fst e)) (fst (fst e)) (snd e)) all t) o =
  fold_left (fun l e => dset l (fst (fst e)) (snd e)) (filter (fun e => Z.eqb (snd (fst e)) o) all) (tget t o).
Proof.
  induction all as [|e r IH]; intros t o; cbn [fold_left filter]; [reflexivity|].
  rewrite IH, tget_tset. destruct (Z.eqb_spec (snd (fst e)) o) as [->|Hne]; cbn [fold_left]; reflexivity.
Qed.

Definition weights_of (pm : pmatch) (c : list (Z * Z)) (o : Z) : list (Z * Z) :=
  fold_left (fun l e => dset l (fst (fst e)) (snd e)) (filter (fun e => Z.eqb (snd (fst e)) o) (assignments pm c)) [].

Lemma apply_block_o2m st pm o :
  tget (s_o2m (apply_block st pm)) o =
  fold_left (fun l e => dset l (fst (fst e)) (snd e))
            (filter (fun e => Z.eqb (snd (fst e)) o) (assignments pm (snd (merge_block st (p_block pm))))) (tget (s_o2m st) o).
Proof. unfold apply_block. destruct (merge_block st (p_block pm)) as [st1 c]. cbn [s_o2m snd]. apply fold_tset_get'. Qed.

(* the particles a placement refers to are particles of its block *)
Definition targets_in_block (pm : pmatch) : Prop :=
  forall u l b w, In (u, l) (p_m2b pm) -> In (b, w) l -> In b (map b_key (b_nodes (p_block pm))).

Lemma assignments_targets pm c e : targets_in_block pm -> In e (assignments pm c) ->
  In (snd (fst e)) (map (fun n => cget c (b_key n)) (b_nodes (p_block pm))).
Proof.
  intros Ht. unfold assignments. rewrite in_app_iff. intros [H|H].
  - apply in_flat_map in H as ([u l] & Hul & H). apply in_map_iff in H as ([b w] & <- & Hbw). cbn.
    specialize (Ht u l b w Hul Hbw). apply in_map_iff in Ht as (n & <- & Hn). apply in_map_iff. exists n. auto.
  - apply in_flat_map in H as (s & Hs & H). apply in_map_iff in H as (ml & <- & _). cbn.
    unfold spawned_of in Hs. apply in_map_iff in Hs as (b & <- & Hb). apply filter_In in Hb as [Hb _].
    apply in_map_iff in Hb as (n & <- & Hn). apply in_map_iff. exists n. auto.
Qed.

Lemma in_zseq x : forall n k, In x (zseq k n) <-> k <= x < k + Z.of_nat n.
Proof. induction n as [|n IH]; intros k; cbn [zseq In]; [lia|]. rewrite IH. lia. Qed.

Definition o2m_bounded (st : ostate) : Prop := forall o, In o (tkeys (s_o2m st)) -> 1 <= o <= Z.of_nat (List.length (s_nodes st)).

Lemma tget_absent t o : ~ In o (tkeys t) -> tget t o = [].
Proof.
  unfold tkeys. induction t as [|[j l] r IH]; cbn; [reflexivity|]. intros H.
  destruct (Z.eqb_spec j o) as [->|]; [exfalso; apply H; left; reflexivity|]. apply IH. intros H'. apply H. right. exact H'.
Qed.

Lemma fold_tset_keys' (all : list (Z * Z * Z)) : forall t x,
  In x (tkeys (fold_left (fun t e => tset t (snd (fst e)) (fst (fst e)) (snd e)) all t)) <->
  In x (tkeys t) \/ In x (map (fun e => snd (fst e)) all).
Proof.
  induction all as [|e r IH]; intros t x; cbn [fold_left map In]; [intuition|].
  rewrite IH, tset_keys. intuition.
Qed.

Lemma apply_block_inv st pm :
  keys_ok st -> o2m_bounded st -> wf_block (p_block pm) -> targets_in_block pm ->
  keys_ok (apply_block st pm) /\ o2m_bounded (apply_block st pm) /\
  (* old particles keep their records, the new ones record exactly this placement's assignments *)
  (forall o, o <= Z.of_nat (List.length (s_nodes st)) -> tget (s_o2m (apply_block st pm)) o = tget (s_o2m st) o) /\
  (forall o, Z.of_nat (List.length (s_nodes st)) < o ->
     tget (s_o2m (apply_block st pm)) o = weights_of pm (snd (merge_block st (p_block pm))) o).
Proof.
  intros Hk Hb Hwf Ht. destruct (merge_block_nodes st (p_block pm) Hk Hwf) as (K1 & K2 & K3).
  assert (Hnew : forall e, In e (assignments pm (snd (merge_block st (p_block pm)))) ->
                 Z.of_nat (List.length (s_nodes st)) < snd (fst e) <= Z.of_nat (List.length (s_nodes st)) + Z.of_nat (List.length (b_nodes (p_block pm)))).
  { intros e He. apply assignments_targets in He; [|exact Ht]. rewrite K3 in He. apply in_zseq in He. lia. }
  split; [unfold keys_ok; rewrite apply_block_nodes; exact K1|]. split; [|split].
  - intros o Ho. rewrite apply_block_nodes.
    assert (Hlen : List.length (s_nodes (fst (merge_block st (p_block pm)))) = (List.length (s_nodes st) + List.length (b_nodes (p_block pm)))%nat).
    { unfold merge_block. destruct (last_node (s_nodes st)); cbn [fst s_nodes]; rewrite app_length, map_length; reflexivity. }
    rewrite Hlen. revert Ho. unfold apply_block. destruct (merge_block st (p_block pm)) as [st1 c] eqn:E. cbn [s_o2m snd] in *.
    rewrite fold_tset_keys'. intros [Ho|Ho].
    + apply Hb in Ho. lia.
    + apply in_map_iff in Ho as (e & <- & He). specialize (Hnew e He). lia.
  - intros o Ho. rewrite apply_block_o2m.
    replace (filter _ _) with (@nil (Z * Z * Z)); [reflexivity|]. symmetry.
    apply (proj2 (forallb_forall _ _)) in Hnew || idtac.
    induction (assignments pm (snd (merge_block st (p_block pm)))) as [|e r IH]; [reflexivity|]. cbn [filter].
    destruct (Z.eqb_spec (snd (fst e)) o) as [E|]; [specialize (Hnew e (or_introl eq_refl)); lia|].
    apply IH. intros e' He'. apply Hnew. right. exact He'.
  - intros o Ho. rewrite apply_block_o2m. unfold weights_of. rewrite tget_absent; [reflexivity|].
    intros H. apply Hb in H. lia.
Qed.

(* Each particle records exactly the atoms and weights its own placement assigns to it, whatever comes before or after. *)
Lemma particle_records ms1 pm ms2 :
  Forall (fun q => wf_block (p_block q) /\ targets_in_block q) (ms1 ++ pm :: ms2) ->
  let st1 := fold_left apply_block ms1 init in
  let c := snd (merge_block st1 (p_block pm)) in
  forall n, In n (b_nodes (p_block pm)) ->
    tget (s_o2m (fold_left apply_block (ms1 ++ pm :: ms2) init)) (cget c (b_key n)) = weights_of pm c (cget c (b_key n)).
Proof.
  intros Hall st1 c n Hn.
  assert (G : forall ms st, keys_ok st -> o2m_bounded st -> Forall (fun q => wf_block (p_block q) /\ targets_in_block q) ms ->
              keys_ok (fold_left apply_block ms st) /\ o2m_bounded (fold_left apply_block ms st) /\
              forall o, o <= Z.of_nat (List.length (s_nodes st)) -> tget (s_o2m (fold_left apply_block ms st)) o = tget (s_o2m st) o).
  { induction ms as [|q r IH]; intros st Hk Hb Hf; cbn [fold_left]; [auto|].
    inversion Hf as [|? ? [Q1 Q2] Q3]; subst. destruct (apply_block_inv st q Hk Hb Q1 Q2) as (A1 & A2 & A3 & _).
    destruct (IH _ A1 A2 Q3) as (B1 & B2 & B3). split; [exact B1|]. split; [exact B2|].
    intros o Ho. rewrite B3; [apply A3; exact Ho|]. rewrite apply_block_nodes.
    unfold merge_block. destruct (last_node (s_nodes st)); cbn [fst s_nodes]; rewrite app_length; lia. }
  apply Forall_app in Hall as [H1 H2]. inversion H2 as [|? ? [Q1 Q2] Q3]; subst.
  assert (Hinit : keys_ok init /\ o2m_bounded init) by (split; [reflexivity|intros o []]).
  destruct (G ms1 init (proj1 Hinit) (proj2 Hinit) H1) as (K1 & K2 & _). fold st1 in K1, K2.
  rewrite fold_left_app. cbn [fold_left]. fold st1.
  destruct (apply_block_inv st1 pm K1 K2 Q1 Q2) as (A1 & A2 & _ & A4).
  destruct (merge_block_nodes st1 (p_block pm) K1 Q1) as (_ & _ & M3). fold c in M3.
  assert (Hrange : Z.of_nat (List.length (s_nodes st1)) < cget c (b_key n) <= Z.of_nat (List.length (s_nodes st1)) + Z.of_nat (List.length (b_nodes (p_block pm)))).
  { assert (X : In (cget c (b_key n)) (map (fun n => cget c (b_key n)) (b_nodes (p_block pm)))) by (apply in_map_iff; exists n; auto).
    rewrite M3 in X. apply in_zseq in X. lia. }
  destruct (G ms2 _ A1 A2 Q3) as (_ & _ & B3). rewrite B3.
  - fold c in A4. apply A4. lia.
  - rewrite apply_block_nodes. unfold merge_block. destruct (last_node (s_nodes st1)); cbn [fst s_nodes]; rewrite app_length, map_length; lia.
Qed.

(* with distinct sources the record is the list of assignments itself *)
Lemma fold_dset_nodup (es : list (Z * Z * Z)) : forall acc,
  NoDup (map fst acc ++ map (fun e => fst (fst e)) es) ->
  fold_left (fun l e => dset l (fst (fst e)) (snd e)) es acc = acc ++ map (fun e => (fst (fst e), snd e)) es.
Proof.
  induction es as [|e r IH]; intros acc Hnd; cbn [fold_left map]; [rewrite app_nil_r; reflexivity|].
  assert (Hd : dset acc (fst (fst e)) (snd e) = acc ++ [(fst (fst e), snd e)]).
  { cbn in Hnd. apply NoDup_remove_2 in Hnd. assert (Hn : ~ In (fst (fst e)) (map fst acc)) by (intros H; apply Hnd; apply in_or_app; left; exact H).
    clear -Hn. induction acc as [|[j v] a IH]; cbn; [reflexivity|]. destruct (Z.eqb_spec j (fst (fst e))) as [E|]; [exfalso; apply Hn; left; exact E|].
    f_equal. apply IH. intros H. apply Hn. right. exact H. }
  rewrite Hd, IH; [rewrite <- app_assoc; reflexivity|]. rewrite map_app. cbn [map fst]. rewrite <- app_assoc. exact Hnd.
Qed.

(* ================= residue numbering for single-residue blocks ================= *)
Lemma last_node_app l new : new <> [] -> last_node (l ++ new) = last_node new.
Proof.
  intros Hn. induction l as [|a r IH]; [reflexivity|]. cbn [app last_node]. destruct (r ++ new) eqn:E.
  - destruct r; [cbn in E; contradiction|discriminate].
  - exact IH.
Qed.

Fixpoint consecutive (ms : list pmatch) (r0 : Z) : list Z :=
  match ms with [] => [] | pm :: r => repeat (r0 + 1) (List.length (b_nodes (p_block pm))) ++ consecutive r (r0 + 1) end.

Definition last_resid (st : ostate) : Z := match last_node (s_nodes st) with Some l => o_resid l | None => 0 end.

Definition single_residue (B : block) : Prop := b_nodes B <> [] /\ forall n, In n (b_nodes B) -> b_resid n = 1.

Lemma last_node_map_resid (f : bnode -> onode) ns r : ns <> [] -> (forall n, In n ns -> o_resid (f n) = r) ->
  match last_node (map f ns) with Some l => o_resid l = r | None => False end.
Proof.
  induction ns as [|a l IH]; intros Hn Hall; [contradiction|]. cbn [map last_node]. destruct l as [|b l'].
  - cbn. apply Hall. left. reflexivity.
  - cbn [map] in *. apply IH; [discriminate|]. intros n Hin. apply Hall. right. exact Hin.
Qed.

Lemma fold_resids ms : forall st, Forall (fun pm => single_residue (p_block pm)) ms ->
  map o_resid (s_nodes (fold_left apply_block ms st)) = map o_resid (s_nodes st) ++ consecutive ms (last_resid st).
Proof.
  induction ms as [|pm r IH]; intros st Hall; cbn [fold_left consecutive]; [rewrite app_nil_r; reflexivity|].
  inversion Hall as [|? ? [H1 H1'] H2]; subst. rewrite IH by exact H2. rewrite apply_block_nodes, merge_block_resids.
  fold (last_resid st). rewrite <- app_assoc. f_equal. f_equal.
  - clear -H1'. induction (b_nodes (p_block pm)) as [|n l IHl]; [reflexivity|]. cbn [map List.length repeat].
    rewrite (H1' n (or_introl eq_refl)). f_equal; [lia|]. apply IHl. intros n' Hn'. apply H1'. right. exact Hn'.
  - f_equal. unfold last_resid at 1. rewrite apply_block_nodes. unfold merge_block.
    destruct (last_node (s_nodes st)) as [l|] eqn:E; cbn [fst s_nodes]; unfold last_resid; rewrite ?E.
    + rewrite last_node_app by (destruct (b_nodes (p_block pm)); [contradiction|discriminate]).
      pose proof (last_node_map_resid (fun n => {| o_key := cget (number (b_nodes (p_block pm)) (o_key l + 1)) (b_key n); o_name := b_name n;
                    o_resid := b_resid n + o_resid l; o_cg := b_cg n + o_cg l |}) (b_nodes (p_block pm)) (o_resid l + 1) H1) as X.
      destruct (last_node (map _ (b_nodes (p_block pm)))); [apply X|exfalso; apply X]; intros n Hn; cbn; rewrite (H1' n Hn); lia.
    + rewrite last_node_app by (destruct (b_nodes (p_block pm)); [contradiction|discriminate]).
      pose proof (last_node_map_resid (fun n => {| o_key := cget (number (b_nodes (p_block pm)) (0 + 1)) (b_key n); o_name := b_name n;
                    o_resid := b_resid n + 0; o_cg := b_cg n + 0 |}) (b_nodes (p_block pm)) (0 + 1) H1) as X.
      destruct (last_node (map _ (b_nodes (p_block pm)))); [apply X|exfalso; apply X]; intros n Hn; cbn; rewrite (H1' n Hn); lia.
Qed.

(* ================= processing order is a rearrangement ================= *)
Lemma insert_by_in pm l x : In x (insert_by pm l) <-> x = pm \/ In x l.
Proof.
  induction l as [|q r IH]; cbn; [intuition|]. destruct (min_key pm <=? min_key q); cbn; [intuition|]. rewrite IH. intuition.
Qed.

Lemma process_order_in found x : In x (process_order found) <-> In x found.
Proof.
  unfold process_order. rewrite (in_rev found). induction (List.rev found) as [|a r IH]; cbn; [tauto|].
  rewrite insert_by_in, IH. intuition.
Qed.

Lemma insert_by_sorted pm l : (forall l1 a l2 b l3, l = l1 ++ a :: l2 ++ b :: l3 -> min_key a <= min_key b) ->
  forall l1 a l2 b l3, insert_by pm l = l1 ++ a :: l2 ++ b :: l3 -> min_key a <= min_key b.
Proof.
  intros Hs l1 a l2 b l3 E. assert (Ha : In (a, b) (pairs (insert_by pm l))) by (apply in_pairs; eauto).
  clear E. revert Hs Ha. induction l as [|q r IH]; intros Hs Ha; cbn in Ha; [destruct Ha|].
  assert (Hs' : forall x y, In (x, y) (pairs (q :: r)) -> min_key x <= min_key y).
  { intros x y H. apply in_pairs in H as (k1 & k2 & k3 & E). eapply Hs; eauto. }
  destruct (Z.leb_spec (min_key pm) (min_key q)) as [Hle|Hgt].
  - cbn [pairs map] in Ha. destruct Ha as [[= <- <-]|Ha]; [exact Hle|]. apply in_app_iff in Ha as [Ha|Ha].
    + apply in_map_iff in Ha as (y & [= <- <-] & Hy). assert (X : min_key q <= min_key y) by (apply Hs'; cbn; apply in_or_app; left; apply in_map; exact Hy). lia.
    + apply Hs'. exact Ha.
  - cbn [pairs] in Ha. apply in_app_iff in Ha as [Ha|Ha].
    + apply in_map_iff in Ha as (y & [= <- <-] & Hy). apply insert_by_in in Hy as [->|Hy]; [lia|].
      apply Hs'. cbn. apply in_or_app. left. apply in_map. exact Hy.
    + apply IH; [|exact Ha]. intros k1 x k2 y k3 ->. apply Hs'. cbn. apply in_or_app. right. apply in_pairs. eauto.
Qed.

Lemma process_order_sorted found l1 a l2 b l3 : process_order found = l1 ++ a :: l2 ++ b :: l3 -> min_key a <= min_key b.
Proof.
  unfold process_order. revert l1 a l2 b l3. induction (List.rev found) as [|x r IH]; intros l1 a l2 b l3; cbn [fold_right].
  - intros E. destruct l1; discriminate.
  - apply insert_by_sorted. exact IH.
Qed.
