(* C04 — property theorems only. *)
From Coq Require Import List Bool ZArith.
From V Require Import C05.Model C01.Model C06.Model C04.Model C04.Complete C04.Emb C04.Max.
Import ListNotations.
Open Scope Z_scope.

(* After repair the recognised atoms (re-added ones included) carry the block's names and elements and the
   correspondence is injective and preserves bonds and absent bonds. *)
Theorem repair_gives_embedding : forall J atoms edges, no_loops J -> valid_start J atoms edges -> emb J (repair_residue J atoms edges).
Proof. exact repair_is_embedding. Qed.
Print Assumptions repair_gives_embedding.

Theorem canonical_names_unique : forall J s, emb J s -> NoDup (map n_name (j_ref J)) ->
  forall a x b y ma mb, In (a, x) (s_match s) -> In (b, y) (s_match s) -> x <> y ->
  In ma (s_atoms s) -> a_key ma = x -> In mb (s_atoms s) -> a_key mb = y -> a_name ma <> a_name mb.
Proof. exact names_unique. Qed.
Print Assumptions canonical_names_unique.

(* every missing block atom is re-added (connected block, something recognised): the loop that pops from the list it
   iterates over still ends with nothing missing *)
Theorem every_missing_atom_rebuilt : forall J atoms edges,
  connected J -> (exists a x, In (a, x) (j_match J) /\ In a (map n_key (j_ref J))) ->
  s_missing (repair_residue J atoms edges) = [].
Proof. exact all_missing_rebuilt. Qed.
Print Assumptions every_missing_atom_rebuilt.

(* in general it stops exactly when no missing atom has a known neighbour *)
Theorem rebuilding_stops_only_when_stuck : forall fuel J s, (List.length (s_missing s) < fuel)%nat ->
  stuck J (rebuild fuel J s) /\ incl (s_missing (rebuild fuel J s)) (s_missing s).
Proof. exact rebuild_spec. Qed.
Print Assumptions rebuilding_stops_only_when_stuck.

(* unrecognised = atoms of the residue outside the match; their number is |residue| - |match| ... *)
Theorem unrecognised_count : forall found m, NoDup found -> NoDup (map snd m) -> incl (map snd m) found ->
  (List.length (extra_of found m) + List.length m = List.length found)%nat.
Proof. exact extra_count. Qed.
Print Assumptions unrecognised_count.

(* ... which a maximum match makes as small as any bond- and element-respecting identification allows *)
Theorem only_beyond_a_largest_match : forall (R B : graph) (m : list (Z * Z)) g,
  List.length m = lcs_size R B ->
  is_common R B g = true -> In (map fst g) (sublists (keys R)) -> (List.length g <= List.length m)%nat.
Proof. exact maximum_match_flags_fewest. Qed.
Print Assumptions only_beyond_a_largest_match.

(* names and atom order do not matter: a residue that is the block comes back complete with nothing unrecognised *)
Theorem scrambled_block_comes_back_whole : forall (R B : graph) (J : job) f,
  is_iso R B f = true -> map fst f = keys R -> List.length (keys R) = List.length (keys B) ->
  List.length (j_match J) = lcs_size R B ->
  NoDup (map fst (j_match J)) -> NoDup (map snd (j_match J)) ->
  incl (map fst (j_match J)) (map n_key (j_ref J)) -> incl (map snd (j_match J)) (j_found J) ->
  NoDup (j_found J) -> NoDup (map n_key (j_ref J)) ->
  List.length (j_found J) = List.length (keys R) -> List.length (j_ref J) = List.length (keys B) ->
  initial_missing J = [] /\ extra_of (j_found J) (j_match J) = [].
Proof. exact scrambled_block_complete. Qed.
Print Assumptions scrambled_block_comes_back_whole.

(* non-vacuity: C-C(-O)-N block, residue given as the two carbons only, names scrambled *)
Definition ex_job := {| j_ref := [{| n_key := 0; n_name := 1; n_el := 6; n_ptm := false |}; {| n_key := 1; n_name := 2; n_el := 6; n_ptm := false |};
                                  {| n_key := 2; n_name := 3; n_el := 8; n_ptm := false |}; {| n_key := 3; n_name := 4; n_el := 7; n_ptm := false |}];
                        j_redges := [(0, 1); (1, 2); (1, 3)]; j_found := [10; 11]; j_match := [(0, 11); (1, 10)]; j_req := false |}.
Definition ex_atoms := [{| a_key := 10; a_name := 77; a_el := 6; a_ptm := false; a_req := false |};
                        {| a_key := 11; a_name := 78; a_el := 6; a_ptm := false; a_req := false |}].
Example ex_repair : let s := repair_residue ex_job ex_atoms [(10, 11)] in
  map a_name (s_atoms s) = [2; 1; 3; 4] /\ s_missing s = [] /\ s_edges s = [(10, 11); (10, 12); (10, 13)].
Proof. vm_compute. repeat split. Qed.
