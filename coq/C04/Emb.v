(* C04 — invariant: the match is an induced, name- and element-giving embedding of the recognised atoms into the block. *)
From Coq Require Import List Bool ZArith Lia.
From V Require Import C05.Model C01.Model C01.Proofs C04.Model.
Import ListNotations.
Open Scope Z_scope.

Definition akeys (s : st) : list Z := map a_key (s_atoms s).

Record emb (J : job) (s : st) : Prop := {
  e_keys : NoDup (akeys s);
  e_dom : NoDup (map fst (s_match s));
  e_img : NoDup (map snd (s_match s));
  e_atoms : forall a x, In (a, x) (s_match s) -> In x (akeys s);
  e_ekeys : forall e, In e (s_edges s) -> In (fst e) (akeys s) /\ In (snd e) (akeys s);
  e_edge : forall a x b y, In (a, x) (s_match s) -> In (b, y) (s_match s) -> a <> b ->
           has_edge (j_redges J) a b = has_edge (s_edges s) x y;
  e_miss : forall r, In r (s_missing s) -> ~ In r (map fst (s_match s)) /\ exists n, rfind J r = Some n;
  e_name : forall a x, In (a, x) (s_match s) ->
           exists n m, rfind J a = Some n /\ In m (s_atoms s) /\ a_key m = x /\ a_name m = n_name n /\ a_el m = n_el n }.

Definition no_loops (J : job) : Prop := forall e, In e (j_redges J) -> fst e <> snd e.

Lemma fold_max_ge l : forall d, d <= fold_left Z.max l d /\ forall x, In x l -> x <= fold_left Z.max l d.
Proof.
  induction l as [|y l IH]; intros d; cbn; [split; [lia|tauto]|].
  destruct (IH (Z.max d y)) as [H1 H2]. split; [lia|]. intros x [<-|Hx]; [lia|auto].
Qed.

Lemma max_key_fresh atoms : ~ In (max_key atoms + 1) (map a_key atoms).
Proof. intros H. apply (proj2 (fold_max_ge (map a_key atoms) 0)) in H. unfold max_key in H. lia. Qed.

Lemma ref_nbrs_spec J a r : In a (ref_nbrs J r) <-> has_edge (j_redges J) a r = true.
Proof.
  unfold ref_nbrs, has_edge. rewrite in_flat_map, existsb_exists. split.
  - intros ([u v] & Hin & H). exists (u, v). split; [exact Hin|]. unfold pair_eqb. cbn in *. apply in_app_iff in H as [H|H].
    + destruct (Z.eqb_spec u r) as [->|]; [|destruct H]. destruct H as [<-|[]]. rewrite !Z.eqb_refl. cbn. apply orb_true_r.
    + destruct (Z.eqb_spec v r) as [->|]; [|destruct H]. destruct H as [<-|[]]. rewrite !Z.eqb_refl. reflexivity.
  - intros ([u v] & Hin & H). exists (u, v). split; [exact Hin|]. unfold pair_eqb in H. cbn in *. apply in_or_app.
    apply orb_true_iff in H as [H|H]; apply andb_true_iff in H as [E1 E2]; apply Z.eqb_eq in E1, E2; subst.
    + right. rewrite Z.eqb_refl. left. reflexivity.
    + left. rewrite Z.eqb_refl. left. reflexivity.
Qed.

Lemma has_edge_sym es u v : has_edge es u v = has_edge es v u.
Proof.
  unfold has_edge. induction es as [|e r IH]; cbn; [reflexivity|]. rewrite IH. f_equal. unfold pair_eqb. cbn.
  destruct (u =? fst e), (v =? snd e), (u =? snd e), (v =? fst e); reflexivity.
Qed.

Lemma has_edge_snd_fresh es k x y : (forall e, In e es -> snd e = k) -> x <> k -> y <> k -> has_edge es x y = false.
Proof.
  intros H Hx Hy. unfold has_edge. destruct (existsb _ es) eqn:E; [|reflexivity]. apply existsb_exists in E as ([a b] & Hin & E).
  specialize (H _ Hin). cbn in *. subst b. unfold pair_eqb in E. cbn in E.
  apply orb_true_iff in E as [E|E]; apply andb_true_iff in E as [E1 E2]; apply Z.eqb_eq in E1, E2; congruence.
Qed.

Lemma has_edge_app es fs u v : has_edge (es ++ fs) u v = has_edge es u v || has_edge fs u v.
Proof. unfold has_edge. apply existsb_app. Qed.

Lemma has_edge_absent es u v : (forall e, In e es -> fst e <> v /\ snd e <> v) -> has_edge es u v = false.
Proof.
  intros H. unfold has_edge. destruct (existsb _ es) eqn:E; [|reflexivity]. apply existsb_exists in E as ([a b] & Hin & E).
  destruct (H _ Hin) as [H1 H2]. cbn in *. unfold pair_eqb in E. cbn in E.
  apply orb_true_iff in E as [E|E]; apply andb_true_iff in E as [E1 E2]; apply Z.eqb_eq in E1, E2; congruence.
Qed.

Lemma pget_in (m : list (Z * Z)) a x : NoDup (map fst m) -> (pget m a = Some x <-> In (a, x) m).
Proof.
  induction m as [|[k v] r IH]; cbn; [intros _; split; [discriminate|tauto]|]. intros H. inversion H as [|? ? Hk Hr]; subst.
  destruct (Z.eqb_spec k a) as [->|Hne].
  - split; [intros [= ->]; left; reflexivity|]. intros [[= ->]|Hin]; [reflexivity|]. exfalso. apply Hk. apply in_map_iff. exists (a, x). auto.
  - rewrite IH by exact Hr. split; [tauto|]. intros [[= E _]|Hin]; [contradiction|exact Hin].
Qed.

Lemma remove_first_in k l x : In x (remove_first k l) -> In x l.
Proof. induction l as [|a r IH]; cbn; [tauto|]. destruct (Z.eqb a k); [tauto|]. intros [<-|H]; [left; reflexivity|right; apply IH; exact H]. Qed.

Lemma remove_first_nodup_out k l : NoDup l -> ~ In k (remove_first k l).
Proof.
  induction l as [|a r IH]; cbn; [tauto|]. intros H. inversion H as [|? ? Ha Hr]; subst. destruct (Z.eqb_spec a k) as [->|Hne]; [exact Ha|].
  intros [E|Hin]; [contradiction|apply IH; assumption].
Qed.

Lemma match_inj (m : list (Z * Z)) a b x : NoDup (map snd m) -> In (a, x) m -> In (b, x) m -> a = b.
Proof.
  induction m as [|[p q] l IH]; [intros _ []|]. cbn. intros I. inversion I as [|? ? Hq Hl]; subst. intros [E1|H1] [E2|H2].
  - congruence.
  - exfalso. injection E1 as -> ->. apply Hq. apply in_map_iff. exists (b, x). auto.
  - exfalso. injection E2 as -> ->. apply Hq. apply in_map_iff. exists (a, x). auto.
  - apply IH; assumption.
Qed.

Lemma match_fun (m : list (Z * Z)) a x y : NoDup (map fst m) -> In (a, x) m -> In (a, y) m -> x = y.
Proof.
  induction m as [|[p q] l IH]; [intros _ []|]. cbn. intros D. inversion D as [|? ? Hp Hl]; subst. intros [E1|H1] [E2|H2].
  - congruence.
  - exfalso. injection E1 as -> ->. apply Hp. apply in_map_iff. exists (a, y). auto.
  - exfalso. injection E2 as -> ->. apply Hp. apply in_map_iff. exists (a, x). auto.
  - apply IH; assumption.
Qed.

(* adding one missing atom keeps the embedding *)
Lemma add_atom_emb J r s : no_loops J -> NoDup (s_missing s) -> emb J s -> In r (s_missing s) ->
  emb J (add_atom J r s) /\ NoDup (s_missing (add_atom J r s)).
Proof.
  intros Hnl Hmnd [K D I A EK E M N] Hr. destruct (M r Hr) as [Hrn [n Hn]].
  unfold add_atom. rewrite Hn. set (k := max_key (s_atoms s) + 1). set (m' := s_match s ++ [(r, k)]).
  assert (Hk : ~ In k (akeys s)) by apply max_key_fresh.
  assert (Dm : NoDup (map fst m')).
  { unfold m'. rewrite map_app. cbn. apply NoDup_app_intro || idtac. clear -D Hrn. induction (map fst (s_match s)) as [|a l IH]; cbn; [constructor; [tauto|constructor]|].
    inversion D as [|? ? Ha Hl]; subst. constructor.
    - rewrite in_app_iff. intros [H|[<-|[]]]; [contradiction|]. apply Hrn. left. reflexivity.
    - apply IH; [exact Hl|]. intros H. apply Hrn. right. exact H. }
  assert (Hkimg : ~ In k (map snd (s_match s))).
  { intros H. apply in_map_iff in H as ([a x] & E1 & Hin). cbn in E1. subst x. apply Hk. eapply A; eauto. }
  split.
  2:{ cbn. clear -Hmnd. induction (s_missing s) as [|a l IH]; cbn; [constructor|]. inversion Hmnd as [|? ? Ha Hl]; subst.
      destruct (Z.eqb a r); [exact Hl|]. constructor; [|apply IH; exact Hl]. intros H. apply Ha. eapply remove_first_in; eauto. }
  constructor; cbn [s_atoms s_edges s_match s_missing].
  - unfold akeys. cbn. rewrite map_app. cbn. clear -K Hk. unfold akeys in *. induction (map a_key (s_atoms s)) as [|a l IH]; cbn; [constructor; [tauto|constructor]|].
    inversion K as [|? ? Ha Hl]; subst. constructor.
    + rewrite in_app_iff. intros [H|[<-|[]]]; [contradiction|]. apply Hk. left. reflexivity.
    + apply IH; [exact Hl|]. intros H. apply Hk. right. exact H.
  - exact Dm.
  - unfold m'. rewrite map_app. cbn. clear -I Hkimg. induction (map snd (s_match s)) as [|a l IH]; cbn; [constructor; [tauto|constructor]|].
    inversion I as [|? ? Ha Hl]; subst. constructor.
    + rewrite in_app_iff. intros [H|[<-|[]]]; [contradiction|]. apply Hkimg. left. reflexivity.
    + apply IH; [exact Hl|]. intros H. apply Hkimg. right. exact H.
  - intros a x Hin. unfold akeys. cbn. rewrite map_app, in_app_iff. apply in_app_iff in Hin as [Hin|[[= <- <-]|[]]]; [left; eapply A; eauto|right; left; reflexivity].
  - intros e He. unfold akeys. cbn. rewrite map_app, !in_app_iff. apply in_app_iff in He as [He|He].
    + destruct (EK e He). tauto.
    + apply in_flat_map in He as (nb & Hnb & He). destruct (pget m' nb) as [x|] eqn:Ep; [|destruct He]. destruct He as [<-|[]]. cbn.
      split; [|right; left; reflexivity]. apply (pget_in m' nb x Dm) in Ep. apply in_app_iff in Ep as [Ep|[[= <- <-]|[]]].
      * left. eapply A; eauto.
      * right. left. reflexivity.
  - (* edges *)
    assert (Hnew : forall a x, In (a, x) (s_match s) ->
              has_edge (j_redges J) a r = has_edge (s_edges s ++ flat_map (fun nb => match pget m' nb with Some x0 => [(x0, k)] | None => [] end) (ref_nbrs J r)) x k).
    { intros a x Hax. rewrite has_edge_app.
      rewrite (has_edge_absent (s_edges s) x k); [cbn [orb]|intros e He; destruct (EK e He) as [H1 H2]; split; intros <-; contradiction].
      destruct (has_edge (j_redges J) a r) eqn:Ear.
      - symmetry. unfold has_edge. apply existsb_exists. exists (x, k). split; [|unfold pair_eqb; cbn; rewrite !Z.eqb_refl; reflexivity].
        apply in_flat_map. exists a. split; [apply ref_nbrs_spec; exact Ear|].
        assert (Ep : pget m' a = Some x) by (apply (pget_in m' a x Dm); unfold m'; apply in_or_app; left; exact Hax). rewrite Ep. left. reflexivity.
      - symmetry. unfold has_edge. destruct (existsb _ _) eqn:Ex; [|reflexivity]. exfalso.
        apply existsb_exists in Ex as ([u v] & Hin & Epair). apply in_flat_map in Hin as (nb & Hnb & Hin).
        destruct (pget m' nb) as [x0|] eqn:Ep; [|destruct Hin]. destruct Hin as [[= <- <-]|[]].
        unfold pair_eqb in Epair. cbn in Epair.
        assert (Ex0 : x0 = x).
        { apply orb_true_iff in Epair as [H|H]; apply andb_true_iff in H as [E1 E2]; apply Z.eqb_eq in E1, E2; [congruence|].
          exfalso. subst. apply Hk. eapply A; eauto. }
        subst x0. apply (pget_in m' nb x Dm) in Ep. apply in_app_iff in Ep as [Ep|[E0|[]]].
        + assert (nb = a) by (eapply match_inj; eauto).
          subst nb. apply ref_nbrs_spec in Hnb. congruence.
        + injection E0 as E1 E2. apply Hk. rewrite E2. eapply A; eauto. }
    intros a x b y Hax Hby Hne. apply in_app_iff in Hax as [Hax|[[= <- <-]|[]]]; apply in_app_iff in Hby as [Hby|[[= <- <-]|[]]].
    + rewrite has_edge_app. rewrite (E a x b y Hax Hby Hne).
      replace (has_edge (flat_map _ (ref_nbrs J r)) x y) with false; [rewrite orb_false_r; reflexivity|].
      symmetry. apply (has_edge_snd_fresh _ k).
      * intros e He. apply in_flat_map in He as (nb & _ & He). destruct (pget m' nb); [|destruct He]. destruct He as [<-|[]]. reflexivity.
      * intros ->. apply Hk. eapply A; eauto.
      * intros ->. apply Hk. eapply A; eauto.
    + apply Hnew. exact Hax.
    + rewrite has_edge_sym, (has_edge_sym _ k y). apply Hnew. exact Hby.
    + contradiction.
  - intros r0 Hr0. split.
    + unfold m'. rewrite map_app, in_app_iff. cbn. intros [H|[<-|[]]].
      * apply (proj1 (M r0 (remove_first_in _ _ _ Hr0))). exact H.
      * exact (remove_first_nodup_out _ _ Hmnd Hr0).
    + exact (proj2 (M r0 (remove_first_in _ _ _ Hr0))).
  - intros a x Hin. apply in_app_iff in Hin as [Hin|[[= <- <-]|[]]].
    + destruct (N a x Hin) as (n0 & m0 & H1 & H2 & H3 & H4 & H5). exists n0, m0. repeat split; try assumption. apply in_or_app. left. exact H2.
    + exists n, {| a_key := k; a_name := n_name n; a_el := n_el n; a_ptm := n_ptm n; a_req := j_req J |}. repeat split; try reflexivity; try assumption.
      apply in_or_app. right. left. reflexivity.
Qed.

Lemma pass_emb fuel J : no_loops J -> forall i s b, NoDup (s_missing s) -> emb J s ->
  emb J (fst (pass fuel J i s b)) /\ NoDup (s_missing (fst (pass fuel J i s b))).
Proof.
  intros Hnl. induction fuel as [|f IH]; intros i s b Hnd He; cbn [pass]; [auto|].
  destruct (nth_error (s_missing s) i) as [r|] eqn:En; [|auto]. destruct (forallb _ _); [apply IH; assumption|].
  destruct (add_atom_emb J r s Hnl Hnd He (nth_error_In _ _ En)) as [H1 H2]. apply IH; assumption.
Qed.

Lemma rebuild_emb fuel J : no_loops J -> forall s, NoDup (s_missing s) -> emb J s -> emb J (rebuild fuel J s).
Proof.
  intros Hnl. induction fuel as [|f IH]; intros s Hnd He; cbn [rebuild]; [exact He|]. destruct (s_missing s) eqn:Em; [exact He|]. rewrite <- Em in *.
  destruct (pass (S (List.length (s_missing s))) J 0 s false) as [s' added] eqn:Ep.
  pose proof (pass_emb (S (List.length (s_missing s))) J Hnl 0 s false Hnd He) as [H1 H2]. rewrite Ep in H1, H2. cbn [fst] in *.
  destruct added; [apply IH; assumption|exact H1].
Qed.

(* what the matcher must deliver (judged per input by C06's checkers): an injective, induced, element-respecting
   correspondence between atoms of the block and atoms of the residue *)
Record valid_start (J : job) (atoms : list matom) (edges : list (Z * Z)) : Prop := {
  v_keys : NoDup (map a_key atoms);
  v_ref : NoDup (map n_key (j_ref J));
  v_dom : NoDup (map fst (j_match J));
  v_img : NoDup (map snd (j_match J));
  v_in : forall a x, In (a, x) (j_match J) -> In x (map a_key atoms) /\ In a (map n_key (j_ref J));
  v_edges : forall e, In e edges -> In (fst e) (map a_key atoms) /\ In (snd e) (map a_key atoms);
  v_induced : forall a x b y, In (a, x) (j_match J) -> In (b, y) (j_match J) -> a <> b -> has_edge (j_redges J) a b = has_edge edges x y }.

Lemma rfind_some J a : In a (map n_key (j_ref J)) -> exists n, rfind J a = Some n /\ n_key n = a.
Proof.
  unfold rfind. intros H. apply in_map_iff in H as (n & <- & Hn). destruct (find _ (j_ref J)) as [n'|] eqn:E.
  - apply find_some in E as [_ E]. apply Z.eqb_eq in E. eauto.
  - exfalso. apply (find_none _ _ E) in Hn. rewrite Z.eqb_refl in Hn. discriminate.
Qed.

Lemma canonicalise_keys J atoms : map a_key (canonicalise J atoms) = map a_key atoms.
Proof.
  unfold canonicalise. rewrite map_map. apply map_ext. intros a. destruct (find _ (j_match J)) as [p|]; [|reflexivity].
  destruct (rfind J (fst p)); reflexivity.
Qed.

Lemma initial_emb J atoms edges : valid_start J atoms edges ->
  emb J {| s_atoms := canonicalise J atoms; s_edges := edges; s_match := j_match J; s_missing := initial_missing J |}
  /\ NoDup (initial_missing J).
Proof.
  intros [K R D I IN E V]. split.
  - constructor; cbn [s_atoms s_edges s_match s_missing]; unfold akeys; cbn [s_atoms]; rewrite ?canonicalise_keys; try assumption.
    + intros a x H. apply (IN a x H).
    + intros r Hr. unfold initial_missing in Hr. apply in_map_iff in Hr as (n & <- & Hn). apply filter_In in Hn as [Hn1 Hn2]. split.
      * apply negb_true_iff in Hn2. intros H. apply zmem_in in H. congruence.
      * destruct (rfind_some J (n_key n) (in_map _ _ _ Hn1)) as (n0 & H0 & _). eauto.
    + intros a x Hax. destruct (IN a x Hax) as [Hx Ha]. destruct (rfind_some J a Ha) as (n & Hn & _).
      apply in_map_iff in Hx as (m & Hm & Hin). exists n.
      exists {| a_key := a_key m; a_name := n_name n; a_el := n_el n; a_ptm := a_ptm m || n_ptm n; a_req := a_req m |}. repeat split; try assumption.
      unfold canonicalise. apply in_map_iff. exists m. split; [|exact Hin].
      destruct (find (fun p => Z.eqb (snd p) (a_key m)) (j_match J)) as [[a' x']|] eqn:Ef.
      * apply find_some in Ef as [Hin' Ex]. cbn in Ex. apply Z.eqb_eq in Ex. subst x'. rewrite Hm in Hin'.
        assert (a' = a) by (eapply match_inj; eauto). subst a'. cbn [fst]. rewrite Hn. reflexivity.
      * exfalso. apply (find_none _ _ Ef) in Hax. cbn in Hax. rewrite Hm, Z.eqb_refl in Hax. discriminate.
  - unfold initial_missing. clear -R. induction (j_ref J) as [|n l IH]; cbn; [constructor|]. cbn in R. inversion R as [|? ? Hn Hl]; subst.
    destruct (negb _); [|apply IH; exact Hl]. cbn. constructor; [|apply IH; exact Hl]. intros H. apply Hn.
    apply in_map_iff in H as (n' & E' & H'). apply filter_In in H' as [H' _]. apply in_map_iff. exists n'. auto.
Qed.

(* After repair the recognised atoms carry the block's names and elements, and the correspondence is an injective
   embedding that preserves bonds AND absent bonds among all recognised atoms, re-added ones included. *)
Theorem repair_is_embedding J atoms edges : no_loops J -> valid_start J atoms edges -> emb J (repair_residue J atoms edges).
Proof.
  intros Hnl Hv. destruct (initial_emb J atoms edges Hv) as [He Hnd]. unfold repair_residue. cbv zeta. apply rebuild_emb; assumption.
Qed.

(* canonical names are unique among the recognised atoms when the block's names are *)
Theorem names_unique J s : emb J s -> NoDup (map n_name (j_ref J)) ->
  forall a x b y ma mb, In (a, x) (s_match s) -> In (b, y) (s_match s) -> x <> y ->
  In ma (s_atoms s) -> a_key ma = x -> In mb (s_atoms s) -> a_key mb = y -> a_name ma <> a_name mb.
Proof.
  intros [K D I A EK E M N] Hn a x b y ma mb Hax Hby Hxy Hma Ka Hmb Kb Heq.
  destruct (N a x Hax) as (na & ma' & Ra & Hma' & Ka' & Na & _). destruct (N b y Hby) as (nb & mb' & Rb & Hmb' & Kb' & Nb & _).
  assert (Huniq : forall m m', In m (s_atoms s) -> In m' (s_atoms s) -> a_key m = a_key m' -> m = m').
  { unfold akeys in K. clear -K. induction (s_atoms s) as [|c l IH]; [intros ? ? []|]. cbn in K. inversion K as [|? ? Hc Hl]; subst.
    intros m m' [<-|Hm] [<-|Hm'] Ek; try reflexivity.
    - exfalso. apply Hc. rewrite Ek. apply in_map. exact Hm'.
    - exfalso. apply Hc. rewrite <- Ek. apply in_map. exact Hm.
    - apply IH; assumption. }
  assert (ma = ma') by (apply Huniq; congruence). assert (mb = mb') by (apply Huniq; congruence). subst ma' mb'.
  assert (Hnn : n_name na = n_name nb) by congruence.
  unfold rfind in Ra, Rb. apply find_some in Ra as [Ia Ea], Rb as [Ib Eb]. apply Z.eqb_eq in Ea, Eb.
  assert (na = nb).
  { clear -Hn Ia Ib Hnn. induction (j_ref J) as [|c l IH]; [destruct Ia|]. cbn in Hn. inversion Hn as [|? ? Hc Hl]; subst.
    destruct Ia as [<-|Ia], Ib as [<-|Ib]; try reflexivity.
    - exfalso. apply Hc. rewrite Hnn. apply in_map. exact Ib.
    - exfalso. apply Hc. rewrite <- Hnn. apply in_map. exact Ia.
    - apply IH; assumption. }
  subst nb. assert (Hab : a = b) by congruence. apply Hxy. apply (match_fun (s_match s) a x y D Hax). rewrite Hab. exact Hby.
Qed.
