(* C04 — model of repair_residue / repair_graph (vermouth/processors/repair_graph.py l.307-475).
   The reference block of a residue (already patched for requested mutations / modifications) and the match
   {reference atom -> residue atom} found by the largest-common-subgraph search are inputs: the model covers what is
   done with them.  The match is judged by C06's proved checkers. *)
From Coq Require Import List Bool ZArith Lia.
From V Require Import C05.Model C01.Model.
Import ListNotations.
Open Scope Z_scope.

Record matom := { a_key : Z; a_name : Z; a_el : Z; a_ptm : bool; a_req : bool (* a mutation / modification was requested *) }.
Record rnode := { n_key : Z; n_name : Z; n_el : Z; n_ptm : bool (* atom of a requested modification: the block carries PTM_atom *) }.
Record job := { j_ref : list rnode; j_redges : list (Z * Z);          (* the reference block *)
                j_found : list Z;                                     (* atoms of the residue *)
                j_match : list (Z * Z);                               (* reference atom -> residue atom *)
                j_req : bool }.                                       (* residue carries a mutation / modification request *)

Record st := { s_atoms : list matom; s_edges : list (Z * Z); s_match : list (Z * Z); s_missing : list Z }.

Definition rfind (J : job) (k : Z) : option rnode := find (fun n => Z.eqb (n_key n) k) (j_ref J).
Definition ref_nbrs (J : job) (k : Z) : list Z :=
  flat_map (fun e => (if Z.eqb (fst e) k then [snd e] else []) ++ (if Z.eqb (snd e) k then [fst e] else [])) (j_redges J).

(* step 1 (l.318-337): matched atoms take the block's name and element, unmatched block atoms are missing *)
Definition canonicalise (J : job) (atoms : list matom) : list matom :=
  map (fun a => match find (fun p => Z.eqb (snd p) (a_key a)) (j_match J) with
                | Some p => match rfind J (fst p) with
                            | Some n => {| a_key := a_key a; a_name := n_name n; a_el := n_el n; a_ptm := a_ptm a || n_ptm n; a_req := a_req a |}
                            | None => a end
                | None => a end) atoms.

Definition initial_missing (J : job) : list Z :=
  map n_key (filter (fun n => negb (zmem (n_key n) (map fst (j_match J)))) (j_ref J)).

Fixpoint remove_first (k : Z) (l : list Z) : list Z :=
  match l with [] => [] | x :: r => if Z.eqb x k then r else x :: remove_first k r end.

Definition max_key (atoms : list matom) : Z := fold_left Z.max (map a_key atoms) 0.

(* l.343-372: a missing atom with a known neighbour is created after the last atom of the molecule and bonded to
   every neighbour that is known by now *)
Definition add_atom (J : job) (r : Z) (s : st) : st :=
  let k := max_key (s_atoms s) + 1 in
  let '(nm, el, pt) := match rfind J r with Some n => (n_name n, n_el n, n_ptm n) | None => (0, 0, false) end in
  let m' := s_match s ++ [(r, k)] in
  {| s_atoms := s_atoms s ++ [{| a_key := k; a_name := nm; a_el := el; a_ptm := pt; a_req := j_req J |}];
     s_edges := s_edges s ++ flat_map (fun nb => match pget m' nb with Some x => [(x, k)] | None => [] end) (ref_nbrs J r);
     s_match := m';
     s_missing := remove_first r (s_missing s) |}.

(* `for ref_idx in missing:` while popping from `missing`: the iteration is by position, so the element that slides into
   the freed position is skipped in this pass (and picked up by a later pass of the enclosing while) *)
Fixpoint pass (fuel : nat) (J : job) (i : nat) (s : st) (added : bool) : st * bool :=
  match fuel with
  | O => (s, added)
  | S f =>
      match nth_error (s_missing s) i with
      | None => (s, added)
      | Some r =>
          if forallb (fun nb => zmem nb (s_missing s)) (ref_nbrs J r) then pass f J (S i) s added
          else pass f J (S i) (add_atom J r s) true
      end
  end.

Fixpoint rebuild (fuel : nat) (J : job) (s : st) : st :=
  match fuel with
  | O => s
  | S f =>
      match s_missing s with
      | [] => s
      | _ :: _ => let '(s', added) := pass (S (List.length (s_missing s))) J 0 s false in
                  if added then rebuild f J s' else s'
      end
  end.

Definition repair_residue (J : job) (atoms : list matom) (edges : list (Z * Z)) : st :=
  let s0 := {| s_atoms := canonicalise J atoms; s_edges := edges; s_match := j_match J; s_missing := initial_missing J |} in
  rebuild (S (List.length (s_missing s0))) J s0.

(* repair_graph (l.462-475): atoms of the residue outside the match are flagged; flagged atoms of a residue with a
   requested mutation / modification are removed *)
Definition flag_extra (J : job) (s : st) : list matom * list (Z * Z) :=
  let extra := filter (fun k => negb (zmem k (map snd (s_match s)))) (j_found J) in
  let flagged := map (fun a => if zmem (a_key a) extra
                               then {| a_key := a_key a; a_name := a_name a; a_el := a_el a; a_ptm := true; a_req := a_req a |} else a) (s_atoms s) in
  let gone := map a_key (filter (fun a => zmem (a_key a) extra && a_req a) flagged) in
  (filter (fun a => negb (zmem (a_key a) gone)) flagged,
   filter (fun e => negb (zmem (fst e) gone) && negb (zmem (snd e) gone)) (s_edges s)).

Definition repair_graph (jobs : list job) (atoms : list matom) (edges : list (Z * Z)) : list matom * list (Z * Z) * list (list Z) :=
  fold_left (fun acc J => let '(ats, es, unbuilt) := acc in
                          let s := repair_residue J ats es in
                          let '(ats', es') := flag_extra J s in (ats', es', unbuilt ++ [s_missing s]))
            jobs (atoms, edges, []).
