(* C04 — what a MAXIMUM match buys: the fewest possible unrecognised atoms; a scrambled copy of the block comes back whole. *)
From Coq Require Import List Bool ZArith Lia.
From V Require Import C05.Model C01.Model C01.Proofs C06.Model C06.Proofs C04.Model.
Import ListNotations.
Open Scope Z_scope.

Definition extra_of (found : list Z) (m : list (Z * Z)) : list Z := filter (fun k => negb (zmem k (map snd m))) found.

Lemma extra_spec found m k : In k (extra_of found m) <-> In k found /\ ~ In k (map snd m).
Proof.
  unfold extra_of. rewrite filter_In, negb_true_iff. split; intros [H1 H2]; split; try assumption.
  - intros H. apply zmem_in in H. congruence.
  - destruct (zmem k (map snd m)) eqn:E; [apply zmem_in in E; contradiction|reflexivity].
Qed.

Lemma max_common_le P G n : (max_common P G n <= n)%nat.
Proof. induction n as [|n IH]; cbn; [lia|]. destruct (has_common P G (S n)); lia. Qed.

(* the number of unrecognised atoms is (atoms of the residue) - (size of the match) ... *)
Lemma extra_count found m : NoDup found -> NoDup (map snd m) -> incl (map snd m) found ->
  (List.length (extra_of found m) + List.length m = List.length found)%nat.
Proof.
  intros Hf Hm Hi. unfold extra_of. rewrite <- (map_length snd m). remember (map snd m) as img eqn:Eimg. clear Eimg m.
  revert img Hm Hi. induction found as [|k r IH]; intros img Hm Hi.
  - destruct img as [|x ?]; [reflexivity|exfalso; apply (Hi x); left; reflexivity].
  - inversion Hf as [|? ? Hk Hr]; subst. cbn [filter]. destruct (zmem k img) eqn:E; cbn [negb].
    + apply zmem_in in E. apply in_split in E as (l1 & l2 & ->).
      assert (Hm' : NoDup (l1 ++ l2)) by (eapply NoDup_remove_1; eauto).
      assert (Hk' : ~ In k (l1 ++ l2)) by (eapply NoDup_remove_2; eauto).
      assert (Hi' : incl (l1 ++ l2) r).
      { intros x Hx. assert (Hx' : In x (l1 ++ k :: l2)) by (apply in_app_iff in Hx as [H|H]; apply in_or_app; [left|right; right]; exact H).
        apply Hi in Hx'. destruct Hx' as [<-|Hx']; [contradiction|exact Hx']. }
      specialize (IH Hr (l1 ++ l2) Hm' Hi').
      assert (Hsame : filter (fun k0 => negb (zmem k0 (l1 ++ k :: l2))) r = filter (fun k0 => negb (zmem k0 (l1 ++ l2))) r).
      { apply filter_ext_in. intros x Hx. f_equal. destruct (zmem x (l1 ++ l2)) eqn:E1.
        - apply zmem_in in E1. apply zmem_in. apply in_app_iff in E1 as [H|H]; apply in_or_app; [left|right; right]; exact H.
        - destruct (zmem x (l1 ++ k :: l2)) eqn:E2; [|reflexivity]. apply zmem_in in E2. apply in_app_iff in E2 as [H|[<-|H]].
          + assert (X : zmem x (l1 ++ l2) = true) by (apply zmem_in; apply in_or_app; left; exact H). congruence.
          + contradiction.
          + assert (X : zmem x (l1 ++ l2) = true) by (apply zmem_in; apply in_or_app; right; exact H). congruence. }
      rewrite Hsame. rewrite app_length in *. cbn [List.length]. lia.
    + assert (Hi' : incl img r).
      { intros x Hx. destruct (Hi x Hx) as [<-|H]; [|exact H]. assert (X : zmem k img = true) by (apply zmem_in; exact Hx). congruence. }
      specialize (IH Hr img Hm Hi'). cbn [List.length]. lia.
Qed.

(* ... and a maximum match makes that number the smallest any element- and bond-respecting identification allows:
   no common induced sub-graph of residue and block has more atoms than the match. *)
Theorem maximum_match_flags_fewest : forall (R B : graph) (m : list (Z * Z)) g,
  List.length m = lcs_size R B ->
  is_common R B g = true -> In (map fst g) (sublists (keys R)) -> (List.length g <= List.length m)%nat.
Proof. intros R B m g Hm Hg Hd. rewrite Hm. apply lcs_size_max; assumption. Qed.

(* a residue that IS the block (any names, any atom order, any keys): a maximum match recognises every atom and misses none *)
Theorem scrambled_block_complete : forall (R B : graph) (J : job) f,
  is_iso R B f = true -> map fst f = keys R -> List.length (keys R) = List.length (keys B) ->
  List.length (j_match J) = lcs_size R B ->
  NoDup (map fst (j_match J)) -> NoDup (map snd (j_match J)) ->
  incl (map fst (j_match J)) (map n_key (j_ref J)) -> incl (map snd (j_match J)) (j_found J) ->
  NoDup (j_found J) -> NoDup (map n_key (j_ref J)) ->
  List.length (j_found J) = List.length (keys R) -> List.length (j_ref J) = List.length (keys B) ->
  initial_missing J = [] /\ extra_of (j_found J) (j_match J) = [].
Proof.
  intros R B J f Hiso Hdom Hsize Hmax D I Hsub1 Hsub2 Hf Hr Lf Lr.
  assert (Hfull : List.length (j_match J) = List.length (keys R)).
  { apply Nat.le_antisymm.
    - rewrite Hmax. apply max_common_le.
    - rewrite Hmax. assert (Hlen : List.length f = List.length (keys R)) by (rewrite <- Hdom, map_length; reflexivity).
      rewrite <- Hlen. unfold is_iso in Hiso. apply andb_true_iff in Hiso as [Hc _]. apply lcs_size_max; [exact Hc|]. rewrite Hdom.
      clear. induction (keys R) as [|k r IH]; cbn; [left; reflexivity|]. apply in_or_app. left. apply in_map. exact IH. }
  assert (filter_none : forall (A : Type) (p : A -> bool) (l : list A), (forall x, In x l -> p x = false) -> filter p l = []).
  { intros A p l. induction l as [|x r IH]; intros H; [reflexivity|]. cbn. rewrite (H x (or_introl eq_refl)). apply IH. intros y Hy. apply H. right. exact Hy. }
  split.
  - assert (Hall : incl (map n_key (j_ref J)) (map fst (j_match J))).
    { apply NoDup_length_incl; [exact D| |exact Hsub1]. rewrite !map_length. lia. }
    unfold initial_missing. rewrite filter_none; [reflexivity|]. intros n Hn. apply negb_false_iff. apply zmem_in. apply Hall. apply in_map. exact Hn.
  - assert (Hall : incl (j_found J) (map snd (j_match J))).
    { apply NoDup_length_incl; [exact I| |exact Hsub2]. rewrite map_length. lia. }
    unfold extra_of. apply filter_none. intros k Hk. apply negb_false_iff. apply zmem_in. apply Hall. exact Hk.
Qed.
