(* C04 — the rebuilding loop ends only when no missing atom has a known neighbour; on a connected block with a
   non-empty match nothing is left missing. *)
From Coq Require Import List Bool ZArith Lia.
From V Require Import C05.Model C01.Model C01.Proofs C04.Model.
Import ListNotations.
Open Scope Z_scope.

Definition stuck_at (J : job) (s : st) (r : Z) : bool := forallb (fun nb => zmem nb (s_missing s)) (ref_nbrs J r).
Definition stuck (J : job) (s : st) : Prop := forall r, In r (s_missing s) -> stuck_at J s r = true.

Lemma remove_first_incl k l x : In x (remove_first k l) -> In x l.
Proof. induction l as [|a r IH]; cbn; [tauto|]. destruct (Z.eqb a k); [tauto|]. intros [<-|H]; [left; reflexivity|right; apply IH; exact H]. Qed.

Lemma remove_first_length k l : In k l -> S (List.length (remove_first k l)) = List.length l.
Proof.
  induction l as [|a r IH]; cbn; [tauto|]. destruct (Z.eqb_spec a k) as [->|Hne]; [reflexivity|].
  intros [E|H]; [contradiction|]. cbn. rewrite IH by exact H. reflexivity.
Qed.

Lemma add_atom_missing J r s : s_missing (add_atom J r s) = remove_first r (s_missing s).
Proof. unfold add_atom. destruct (match rfind J r with Some n => _ | None => _ end) as [[? ?] ?]. reflexivity. Qed.

(* a pass that reports "nothing added" changed nothing and saw only stuck atoms from position i on *)
Lemma pass_false fuel J : forall i s, snd (pass fuel J i s false) = false ->
  fst (pass fuel J i s false) = s /\
  ((List.length (s_missing s) <= i + fuel)%nat -> forall j r, (i <= j)%nat -> nth_error (s_missing s) j = Some r -> stuck_at J s r = true).
Proof.
  assert (Htrue : forall fuel i s, snd (pass fuel J i s true) = true).
  { induction fuel0 as [|f IH]; intros i s; cbn; [reflexivity|]. destruct (nth_error (s_missing s) i); [|reflexivity].
    destruct (forallb _ _); apply IH. }
  induction fuel as [|f IH]; intros i s; cbn [pass].
  - intros _. split; [reflexivity|]. intros Hlen j r Hj Hn. apply nth_error_Some_lt in Hn || idtac.
    assert (j < List.length (s_missing s))%nat by (apply nth_error_Some; congruence). lia.
  - destruct (nth_error (s_missing s) i) as [r0|] eqn:En.
    + destruct (forallb (fun nb => zmem nb (s_missing s)) (ref_nbrs J r0)) eqn:Es.
      * intros H. destruct (IH (S i) s H) as [H1 H2]. split; [exact H1|]. intros Hlen j r Hj Hn.
        destruct (Nat.eq_dec j i) as [->|Hne]; [rewrite En in Hn; injection Hn as <-; exact Es|].
        apply (H2 ltac:(lia) j r ltac:(lia) Hn).
      * intros H. rewrite Htrue in H. discriminate.
    + intros _. split; [reflexivity|]. intros _ j r Hj Hn. apply nth_error_None in En.
      assert (j < List.length (s_missing s))%nat by (apply nth_error_Some; congruence). lia.
Qed.

Lemma pass_missing fuel J : forall i s b,
  incl (s_missing (fst (pass fuel J i s b))) (s_missing s) /\
  (List.length (s_missing (fst (pass fuel J i s b))) <= List.length (s_missing s))%nat /\
  (snd (pass fuel J i s b) = true -> b = false -> (List.length (s_missing (fst (pass fuel J i s b))) < List.length (s_missing s))%nat).
Proof.
  induction fuel as [|f IH]; intros i s b; cbn [pass].
  - cbn. split; [intros x Hx; exact Hx|]. split; [lia|]. intros -> ?. discriminate.
  - destruct (nth_error (s_missing s) i) as [r0|] eqn:En; [|cbn; split; [intros x Hx; exact Hx|split; [lia|intros -> ?; discriminate]]].
    destruct (forallb _ _).
    + apply IH.
    + destruct (IH (S i) (add_atom J r0 s) true) as (I1 & I2 & _). rewrite add_atom_missing in I1, I2.
      assert (Hin : In r0 (s_missing s)) by (eapply nth_error_In; eauto).
      pose proof (remove_first_length r0 _ Hin) as Hl. split; [|split].
      * intros x Hx. apply I1 in Hx. eapply remove_first_incl; eauto.
      * lia.
      * intros _ _. lia.
Qed.

Lemma rebuild_spec fuel J : forall s, (List.length (s_missing s) < fuel)%nat ->
  stuck J (rebuild fuel J s) /\ incl (s_missing (rebuild fuel J s)) (s_missing s).
Proof.
  induction fuel as [|f IH]; intros s Hf; [lia|]. cbn [rebuild]. destruct (s_missing s) as [|m0 ms] eqn:Em.
  - split; [intros r Hr; rewrite Em in Hr; destruct Hr|intros x Hx; rewrite Em in Hx; exact Hx].
  - rewrite <- Em in *. destruct (pass (S (List.length (s_missing s))) J 0 s false) as [s' added] eqn:Ep.
    pose proof (pass_missing (S (List.length (s_missing s))) J 0 s false) as (P1 & P2 & P3). rewrite Ep in P1, P2, P3. cbn [fst snd] in *.
    destruct added.
    + specialize (P3 eq_refl eq_refl). destruct (IH s' ltac:(lia)) as [I1 I2]. split; [exact I1|]. intros x Hx. apply P1. apply I2. exact Hx.
    + pose proof (pass_false (S (List.length (s_missing s))) J 0 s) as Hpf. rewrite Ep in Hpf. cbn [fst snd] in Hpf.
      destruct (Hpf eq_refl) as [-> H2]. split; [|intros x Hx; exact Hx].
      intros r Hr. apply In_nth_error in Hr as [j Hj]. apply (H2 ltac:(lia) j r ltac:(lia) Hj).
Qed.

(* connectedness of the reference block, as a cut property: a proper non-empty part always has a bond leaving it *)
Definition connected (J : job) : Prop :=
  forall M, M <> [] -> incl M (map n_key (j_ref J)) -> (exists k, In k (map n_key (j_ref J)) /\ ~ In k M) ->
  exists r nb, In r M /\ In nb (ref_nbrs J r) /\ ~ In nb M.

Lemma initial_missing_spec J k : In k (initial_missing J) <-> In k (map n_key (j_ref J)) /\ ~ In k (map fst (j_match J)).
Proof.
  unfold initial_missing. rewrite in_map_iff. split.
  - intros (n & <- & H). apply filter_In in H as [H1 H2]. split; [apply in_map; exact H1|]. apply negb_true_iff in H2.
    intros H. apply zmem_in in H. congruence.
  - intros [H1 H2]. apply in_map_iff in H1 as (n & <- & Hn). exists n. split; [reflexivity|]. apply filter_In. split; [exact Hn|].
    apply negb_true_iff. destruct (zmem _ _) eqn:E; [apply zmem_in in E; contradiction|reflexivity].
Qed.

(* every missing block atom is re-added: connected block, at least one atom recognised *)
Theorem all_missing_rebuilt J atoms edges :
  connected J -> (exists a x, In (a, x) (j_match J) /\ In a (map n_key (j_ref J))) ->
  s_missing (repair_residue J atoms edges) = [].
Proof.
  intros Hc (a & x & Hax & Ha). unfold repair_residue. cbv zeta.
  set (s0 := {| s_atoms := canonicalise J atoms; s_edges := edges; s_match := j_match J; s_missing := initial_missing J |}).
  destruct (rebuild_spec (S (List.length (s_missing s0))) J s0 ltac:(lia)) as [Hstuck Hsub].
  destruct (s_missing (rebuild _ J s0)) as [|m0 ms] eqn:Em; [reflexivity|exfalso].
  destruct (Hc (m0 :: ms)) as (r & nb & Hr & Hnb & Hout).
  - discriminate.
  - intros k Hk. apply Hsub in Hk. cbn in Hk. apply initial_missing_spec in Hk. tauto.
  - exists a. split; [exact Ha|]. intros H. apply Hsub in H. cbn in H. apply initial_missing_spec in H.
    apply (proj2 H). apply in_map_iff. exists (a, x). auto.
  - assert (Hr' : In r (s_missing (rebuild (S (List.length (s_missing s0))) J s0))) by (rewrite Em; exact Hr).
    specialize (Hstuck r Hr'). unfold stuck_at in Hstuck. rewrite forallb_forall in Hstuck.
    specialize (Hstuck nb Hnb). apply zmem_in in Hstuck. rewrite Em in Hstuck. contradiction.
Qed.
