(* C04 — case type and the two boolean functions evaluated on generated cases. *)
From Coq Require Import List Bool ZArith.
From V Require Import C05.Model C01.Model C06.Model C04.Model.
Import ListNotations.
Open Scope Z_scope.

Record rjob := { rj : job; rj_final : list (Z * Z);            (* the correspondence after repair, as the implementation left it *)
                 rj_R : graph; rj_B : graph;                   (* residue and block as coloured graphs (colour = element) *)
                 rj_small : bool;                              (* small enough for the exhaustive maximum *)
                 rj_witness : list (Z * Z) }.                  (* a proposed embedding residue -> block (from how the case was built) *)

Inductive case :=
| CRepair (jobs : list rjob) (atoms : list matom) (edges : list (Z * Z))
          (iatoms : list matom) (iedges : list (Z * Z)).

Definition atom_eqb (a b : matom) : bool :=
  Z.eqb (a_key a) (a_key b) && Z.eqb (a_name a) (a_name b) && Z.eqb (a_el a) (a_el b) && Bool.eqb (a_ptm a) (a_ptm b).

Definition edges_same (a b : list (Z * Z)) : bool :=
  forallb (fun e => has_edge b (fst e) (snd e)) a && forallb (fun e => has_edge a (fst e) (snd e)) b.

Definition corr (k : case) : bool :=
  match k with
  | CRepair jobs atoms edges iatoms iedges =>
      let '(ats, es, _) := repair_graph (map rj jobs) atoms edges in
      Nat.eqb (List.length ats) (List.length iatoms)
      && forallb (fun a => existsb (atom_eqb a) iatoms) ats && edges_same es iedges
  end.

Definition afind (l : list matom) (k : Z) : option matom := find (fun a => Z.eqb (a_key a) k) l.

(* is the block connected?  closure from the first node *)
Fixpoint grow (fuel : nat) (J : job) (seen : list Z) : list Z :=
  match fuel with O => seen | S f =>
    let next := filter (fun k => negb (zmem k seen) && existsb (fun s => zmem k (ref_nbrs J s)) seen) (map n_key (j_ref J)) in
    match next with [] => seen | _ => grow f J (seen ++ next) end end.
Definition connectedb (J : job) : bool :=
  match j_ref J with [] => true | n :: _ => Nat.eqb (List.length (grow (List.length (j_ref J)) J [n_key n])) (List.length (j_ref J)) end.

Definition swap (m : list (Z * Z)) : list (Z * Z) := map (fun p => (snd p, fst p)) m.
(* write a residue->block correspondence in the residue's node order *)
Definition in_order (R : graph) (m : list (Z * Z)) : list (Z * Z) :=
  flat_map (fun k => match find (fun p => Z.eqb (fst p) k) m with Some p => [p] | None => [] end) (keys R).

Definition prop (k : case) : bool :=
  match k with
  | CRepair jobs _ _ iatoms iedges =>
      (* keys given to re-added atoms (a key freed by a removal may be used again) *)
      let rebuilt := flat_map (fun j => filter (fun k0 => negb (zmem k0 (map snd (j_match (rj j))))) (map snd (rj_final j))) jobs in
      forallb (fun j =>
        let J := rj j in
        let m0 := in_order (rj_R j) (swap (j_match J)) in
        (* the matcher delivered an element- and bond-respecting correspondence, of maximum size *)
        is_common (rj_R j) (rj_B j) m0
        && Nat.eqb (List.length m0) (List.length (j_match J))
        && (if rj_small j then Nat.eqb (List.length m0) (lcs_size (rj_R j) (rj_B j)) else true)
        (* if the whole residue embeds into the block (witness checked here), a maximum match recognises every atom *)
        && (if is_common (rj_R j) (rj_B j) (rj_witness j) && Nat.eqb (List.length (rj_witness j)) (List.length (keys (rj_R j)))
            then Nat.eqb (List.length m0) (List.length (keys (rj_R j))) else true)
        (* recognised atoms: canonical name and element, names unique, bonds and absent bonds as in the block *)
        && forallb (fun p => match rfind J (fst p), afind iatoms (snd p) with
                             | Some n, Some a => Z.eqb (a_name a) (n_name n) && Z.eqb (a_el a) (n_el n)
                             | _, None => j_req J      (* removed together with a mutation / modification request: only flagged atoms may go *)
                             | _, _ => false end) (rj_final j)
        && nodupb (map snd (rj_final j)) && nodupb (map fst (rj_final j))
        && forallb (fun pq => Z.eqb (fst (fst pq)) (fst (snd pq))
                              || Bool.eqb (has_edge (j_redges J) (fst (fst pq)) (fst (snd pq))) (has_edge iedges (snd (fst pq)) (snd (snd pq))))
                   (list_prod (rj_final j) (rj_final j))
        (* every block atom is there when the block is connected and something was recognised *)
        && (if connectedb J && negb (Nat.eqb (List.length (j_match J)) 0)
            then forallb (fun n => zmem (n_key n) (map fst (rj_final j))) (j_ref J) else true)
        (* unrecognised atoms are exactly the atoms of the residue outside the match *)
        && forallb (fun k0 => match afind iatoms k0 with
                              | Some a => (j_req J && negb (zmem k0 (map snd (j_match J))) && zmem k0 rebuilt)   (* removed; the key was used again *)
                                          || Bool.eqb (a_ptm a)
                                            (match find (fun p => Z.eqb (snd p) k0) (j_match J) with
                                             | Some p => match rfind J (fst p) with Some n => n_ptm n | None => false end   (* atom of a requested modification *)
                                             | None => true end)
                              | None => j_req J && negb (zmem k0 (map snd (j_match J))) end) (j_found J)
        (* a scrambled copy of the block: complete, nothing unrecognised, nothing added *)
        && (if rj_small j then
              if Nat.eqb (List.length (keys (rj_R j))) (List.length (keys (rj_B j))) then
                match all_isos (rj_R j) (rj_B j) with
                | [] => true
                | _ :: _ => Nat.eqb (List.length (rj_final j)) (List.length (j_match J))
                            && forallb (fun k0 => zmem k0 (map snd (j_match J))) (j_found J)
                end
              else true
            else true))
      jobs
  end.
