(* C11 — property theorems only (stage-level facts; the composition on the real pipeline is explored by paired runs). *)
From Coq Require Import List Bool ZArith QArith Permutation Sorted.
From V Require Import Base.Sort C11.Equivariance C09.Model C09.Proofs C11.Beads.
Import ListNotations.

Theorem canonical_order_independent_of_presentation :
  forall (A : Type) (leb : A -> A -> bool),
  (forall x y, leb x y = true \/ leb y x = true) ->
  (forall x y z, leb x y = true -> leb y z = true -> leb x z = true) ->
  forall l l', (forall x y, In x l -> In y l -> leb x y = true -> leb y x = true -> x = y) ->
  Permutation l l' -> sort leb l = sort leb l'.
Proof. intros A leb H1 H2 l l'. apply canonical_order_presentation_independent; assumption. Qed.
Print Assumptions canonical_order_independent_of_presentation.

Theorem stages_compose : forall (G X : Type) (actX : G -> X -> X) (stages : list (X -> X)),
  Forall (equivariant actX actX) stages -> equivariant actX actX (fun x => fold_left (fun s f => f s) stages x).
Proof. intros G X actX stages. apply pipeline_equivariant. Qed.
Print Assumptions stages_compose.

Theorem distances_survive_rigid_motion : forall M t p q, orthogonal M -> (dist2 (move M t p) (move M t q) == dist2 p q)%Q.
Proof. exact rigid_motion_preserves_distances. Qed.
Print Assumptions distances_survive_rigid_motion.

Theorem bead_positions_move_with_the_structure : forall M t w1 w2 p q,
  (w1 + w2 == 1)%Q ->
  let comb a b := addv (mulv ((w1, 0, 0), (0, w1, 0), (0, 0, w1))%Q a) (mulv ((w2, 0, 0), (0, w2, 0), (0, 0, w2))%Q b) in
  let '(x, y, z) := comb (move M t p) (move M t q) in
  let '(x', y', z') := move M t (comb p q) in (x == x' /\ y == y' /\ z == z')%Q.
Proof. exact weighted_mean_moves_with_motion. Qed.
Print Assumptions bead_positions_move_with_the_structure.

(* composition of C09 with any distance-reading stage (C15 elastic network, C18 contacts, geometry-derived lengths): for beads
   of any number of constituents and any weights, moving the atoms rigidly keeps every bead and every bead-bead distance *)
Theorem bead_distances_survive_rigid_motion : forall M t l1 l2 p1 p2,
  orthogonal M -> mean l1 = RPos p1 -> mean l2 = RPos p2 ->
  exists q1 q2, mean (map_pos (aff M t) l1) = RPos q1 /\ mean (map_pos (aff M t) l2) = RPos q2 /\
                (dist2 q1 q2 == dist2 p1 p2)%Q.
Proof. exact bead_distances_rigid. Qed.
Print Assumptions bead_distances_survive_rigid_motion.

Theorem absent_beads_stay_absent : forall M t l, mean l = RNaN -> mean (map_pos (aff M t) l) = RNaN.
Proof. exact bead_nan_moves. Qed.
Print Assumptions absent_beads_stay_absent.

(* the sort is determined by the order relation; wherever the code sorts, the result does not depend on arrival order *)
Example ex_sort : sort Z.leb [3; 1; 2]%Z = sort Z.leb [2; 3; 1]%Z.
Proof. reflexivity. Qed.
