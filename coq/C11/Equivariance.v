(* C11 — the stage-level facts behind "the topology depends on the chemistry, not on the presentation":
   (1) a canonical order (sorting by a key that is a total order on the elements) does not depend on the order in
       which the elements are presented;
   (2) composing stages that commute with a change of presentation gives a pipeline that commutes with it;
   (3) a rigid motion (orthogonal matrix + translation, exact rationals) preserves every squared distance, so every
       stage that looks at coordinates only through distances (C10 bond guessing, C15 elastic network, C18 contacts) is
       unaffected and every stage that is affine in the coordinates (C09 bead positions) moves with it. *)
From Coq Require Import List Bool ZArith QArith Qabs Permutation Sorted Lia.
From V Require Import Base.Sort.
Import ListNotations.

(* ---------- (1) canonical order ---------- *)
Section Canonical.
Context {A : Type} (leb : A -> A -> bool).
Hypothesis leb_total : forall x y, leb x y = true \/ leb y x = true.
Hypothesis leb_trans : forall x y z, leb x y = true -> leb y z = true -> leb x z = true.

Notation rel := (sortedb_rel leb).

Lemma sorted_perm_unique : forall l l',
  (forall x y, In x l -> In y l -> leb x y = true -> leb y x = true -> x = y) ->
  StronglySorted rel l -> StronglySorted rel l' -> Permutation l l' -> l = l'.
Proof.
  induction l as [|a l IH]; intros l' Hanti Hs Hs' Hp.
  - apply Permutation_nil in Hp. subst. reflexivity.
  - destruct l' as [|b l']; [apply Permutation_sym, Permutation_nil in Hp; discriminate|].
    inversion Hs as [|? ? Hsl Hal]; subst. inversion Hs' as [|? ? Hsl' Hbl']; subst.
    assert (Hab : a = b).
    { assert (Ha : In a (b :: l')) by (eapply Permutation_in; [exact Hp|left; reflexivity]).
      assert (Hb : In b (a :: l)) by (eapply Permutation_in; [apply Permutation_sym; exact Hp|left; reflexivity]).
      destruct Ha as [->|Ha]; [reflexivity|]. destruct Hb as [->|Hb]; [reflexivity|].
      rewrite Forall_forall in Hal, Hbl'. apply Hanti; [left; reflexivity|right; exact Hb|apply Hal; exact Hb|apply Hbl'; exact Ha]. }
    subst b. f_equal. apply IH; try assumption.
    + intros x y Hx Hy. apply Hanti; right; assumption.
    + eapply Permutation_cons_inv; eauto.
Qed.

(* sorting two presentations of the same atoms gives the same list *)
Theorem canonical_order_presentation_independent : forall l l',
  (forall x y, In x l -> In y l -> leb x y = true -> leb y x = true -> x = y) ->
  Permutation l l' -> sort leb l = sort leb l'.
Proof.
  intros l l' Hanti Hp. apply sorted_perm_unique.
  - intros x y Hx Hy. apply Hanti; apply (sort_in leb); assumption.
  - apply sort_sorted; assumption.
  - apply sort_sorted; assumption.
  - eapply Permutation_trans; [apply Permutation_sym, sort_perm|]. eapply Permutation_trans; [exact Hp|apply sort_perm].
Qed.
End Canonical.

(* ---------- (2) composition ---------- *)
Section Compose.
Context {G X Y Z : Type} (actX : G -> X -> X) (actY : G -> Y -> Y) (actZ : G -> Z -> Z).

Definition equivariant {U V} (aU : G -> U -> U) (aV : G -> V -> V) (f : U -> V) : Prop := forall g x, f (aU g x) = aV g (f x).

Theorem compose_equivariant : forall (f : X -> Y) (h : Y -> Z),
  equivariant actX actY f -> equivariant actY actZ h -> equivariant actX actZ (fun x => h (f x)).
Proof. intros f h Hf Hh g x. rewrite Hf, Hh. reflexivity. Qed.

(* a pipeline of stages on one state type *)
Theorem pipeline_equivariant : forall (stages : list (X -> X)),
  Forall (equivariant actX actX) stages -> equivariant actX actX (fun x => fold_left (fun s f => f s) stages x).
Proof.
  intros stages H. induction H as [|f r Hf Hr IH]; intros g x; cbn; [reflexivity|]. rewrite Hf. apply IH.
Qed.

(* a stage that only looks at a canonical form is invariant under whatever the canonical form ignores *)
Theorem invariant_through_canonical_form : forall (c : X -> Y) (h : Y -> Z),
  (forall g x, c (actX g x) = c x) -> forall g x, h (c (actX g x)) = h (c x).
Proof. intros c h Hc g x. rewrite Hc. reflexivity. Qed.
End Compose.

(* ---------- (3) rigid motions ---------- *)
Open Scope Q_scope.
Definition vec := (Q * Q * Q)%type.
Definition mat := (vec * vec * vec)%type.      (* rows *)

Definition dot (a b : vec) : Q := let '(a1, a2, a3) := a in let '(b1, b2, b3) := b in a1 * b1 + a2 * b2 + a3 * b3.
Definition mulv (M : mat) (p : vec) : vec := let '(r1, r2, r3) := M in (dot r1 p, dot r2 p, dot r3 p).
Definition addv (a b : vec) : vec := let '(a1, a2, a3) := a in let '(b1, b2, b3) := b in (a1 + b1, a2 + b2, a3 + b3).
Definition subv (a b : vec) : vec := let '(a1, a2, a3) := a in let '(b1, b2, b3) := b in (a1 - b1, a2 - b2, a3 - b3).
Definition move (M : mat) (t : vec) (p : vec) : vec := addv (mulv M p) t.
Definition dist2 (a b : vec) : Q := dot (subv a b) (subv a b).

Definition col (M : mat) (i : nat) : vec :=
  let '((a, b, c), (d, e, f), (g, h, k)) := M in match i with O => (a, d, g) | S O => (b, e, h) | _ => (c, f, k) end.
(* columns are orthonormal: M^T M = I *)
Definition orthogonal (M : mat) : Prop :=
  dot (col M 0) (col M 0) == 1 /\ dot (col M 1) (col M 1) == 1 /\ dot (col M 2) (col M 2) == 1 /\
  dot (col M 0) (col M 1) == 0 /\ dot (col M 0) (col M 2) == 0 /\ dot (col M 1) (col M 2) == 0.

Theorem rigid_motion_preserves_distances : forall M t p q, orthogonal M -> dist2 (move M t p) (move M t q) == dist2 p q.
Proof.
  intros [[[[a b] c] [[d e] f]] [[g h] k]] [[t1 t2] t3] [[p1 p2] p3] [[q1 q2] q3] (H1 & H2 & H3 & H4 & H5 & H6).
  unfold dist2, move, addv, mulv, subv, dot, col in *. cbn in *.
  set (x := p1 - q1). set (y := p2 - q2). set (z := p3 - q3).
  transitivity ((a * a + d * d + g * g) * (x * x) + (b * b + e * e + h * h) * (y * y) + (c * c + f * f + k * k) * (z * z)
                + 2 * (a * b + d * e + g * h) * (x * y) + 2 * (a * c + d * f + g * k) * (x * z) + 2 * (b * c + e * f + h * k) * (y * z)).
  - unfold x, y, z. ring.
  - rewrite H1, H2, H3, H4, H5, H6. ring.
Qed.

(* affine combinations (bead = weighted mean of atoms, weights summing to one) move with the motion *)
Theorem weighted_mean_moves_with_motion : forall M t w1 w2 p q,
  w1 + w2 == 1 ->
  let comb a b := addv (mulv ((w1, 0, 0), (0, w1, 0), (0, 0, w1)) a) (mulv ((w2, 0, 0), (0, w2, 0), (0, 0, w2)) b) in
  let '(x, y, z) := comb (move M t p) (move M t q) in
  let '(x', y', z') := move M t (comb p q) in x == x' /\ y == y' /\ z == z'.
Proof.
  intros [[[[a b] c] [[d e] f]] [[g h] k]] [[t1 t2] t3] w1 w2 [[p1 p2] p3] [[q1 q2] q3] Hw. cbn.
  assert (E : w2 == 1 - w1) by (rewrite <- Hw; ring). repeat split; rewrite E; ring.
Qed.

(* the check evaluated on a pair of runs: coordinates of the second run are those of the first, moved *)
Definition close (tol : Q) (a b : vec) : bool :=
  let '(x, y, z) := subv a b in Qle_bool (Qabs x) tol && Qle_bool (Qabs y) tol && Qle_bool (Qabs z) tol.
Fixpoint related_by (M : mat) (t : vec) (tol : Q) (ps qs : list vec) : bool :=
  match ps, qs with
  | [], [] => true
  | p :: ps', q :: qs' => close tol (move M t p) q && related_by M t tol ps' qs'
  | _, _ => false
  end.
Definition orthogonalb (M : mat) : bool :=
  Qeq_bool (dot (col M 0) (col M 0)) 1 && Qeq_bool (dot (col M 1) (col M 1)) 1 && Qeq_bool (dot (col M 2) (col M 2)) 1
  && Qeq_bool (dot (col M 0) (col M 1)) 0 && Qeq_bool (dot (col M 0) (col M 2)) 0 && Qeq_bool (dot (col M 1) (col M 2)) 0.

Lemma orthogonalb_sound M : orthogonalb M = true -> orthogonal M.
Proof. unfold orthogonalb, orthogonal. rewrite !andb_true_iff. intros [[[[[H1 H2] H3] H4] H5] H6]. repeat split; apply Qeq_bool_eq; assumption. Qed.
