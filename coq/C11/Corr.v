(* C11 — one pair of runs of the real pipeline: the reference presentation and another one. *)
From Coq Require Import List Bool ZArith QArith.
From V Require Import C11.Equivariance.
Import ListNotations.

Inductive case :=
| CPair (M : mat) (t : vec) (tol : Q)
        (base_xyz pres_xyz : list vec)           (* coarse-grained coordinates written by the two runs *)
        (same_topology : bool)                   (* atoms, types, charges, all interactions and parameters, compared token by token *)
        (both_succeeded : bool).

Definition corr (k : case) : bool :=
  match k with CPair M t tol b p same ok => orthogonalb M && ok end.

Definition prop (k : case) : bool :=
  match k with CPair M t tol b p same ok => ok && same && related_by M t tol b p end.
