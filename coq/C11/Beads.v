(* C11 — composition of two stages: the bead positions of C09 (weighted means over any number of constituents, the
   model of `do_mapping`'s position step) followed by any stage that reads the beads only through their mutual
   distances (elastic network C15, Go contacts C18, geometry-derived bond lengths).  If the atoms of the input are
   moved rigidly, every bead exists exactly when it existed before, and every bead-bead squared distance is unchanged.
   This lifts `weighted_mean_moves_with_motion` (two constituents, weights summing to one) to the mean the
   implementation computes: any number of constituents, any weights whose sum is not (almost) zero. *)
From Coq Require Import List Bool ZArith QArith Qabs Lia.
From V Require Import C09.Model C09.Proofs C11.Equivariance.
Import ListNotations.
Open Scope Q_scope.

Definition aff (M : mat) (t : vec) : affine :=
  let '((a, b, c), (d, e, f), (g, h, k)) := M in let '(u, v, w) := t in
  {| a11 := a; a12 := b; a13 := c; a21 := d; a22 := e; a23 := f; a31 := g; a32 := h; a33 := k; t1 := u; t2 := v; t3 := w |}.

Lemma app_aff_move M t p : app_affine (aff M t) p = move M t p.
Proof. destruct M as [[[[a b] c] [[d e] f]] [[g h] k]], t as [[u v] w], p as [[x y] z]. reflexivity. Qed.

Lemma dist2_peq a a' b b' : peq a a' -> peq b b' -> dist2 a b == dist2 a' b'.
Proof.
  destruct a as [[a1 a2] a3], a' as [[c1 c2] c3], b as [[b1 b2] b3], b' as [[d1 d2] d3].
  unfold peq; cbn. intros (E1 & E2 & E3) (F1 & F2 & F3). rewrite E1, E2, E3, F1, F2, F3. reflexivity.
Qed.

(* moving the atoms moves the bead: existence and position *)
Lemma bead_moves M t l p :
  mean l = RPos p -> exists p', mean (map_pos (aff M t) l) = RPos p' /\ peq p' (move M t p).
Proof. intros H. destruct (affine_equivariant_lemma (aff M t) l p H) as (p' & H1 & H2). exists p'. rewrite <- app_aff_move. auto. Qed.

(* a bead that does not exist (weights summing to almost zero) does not come into existence by moving the atoms *)
Lemma bead_nan_moves M t l : mean l = RNaN -> mean (map_pos (aff M t) l) = RNaN.
Proof.
  intros H. apply nan_iff_lemma. apply nan_iff_lemma in H. destruct (sums_affine (aff M t) l) as (S0 & _). rewrite S0. exact H.
Qed.

Theorem bead_distances_rigid M t l1 l2 p1 p2 :
  orthogonal M -> mean l1 = RPos p1 -> mean l2 = RPos p2 ->
  exists q1 q2, mean (map_pos (aff M t) l1) = RPos q1 /\ mean (map_pos (aff M t) l2) = RPos q2 /\
                dist2 q1 q2 == dist2 p1 p2.
Proof.
  intros HM H1 H2. destruct (bead_moves M t l1 p1 H1) as (q1 & Q1 & E1). destruct (bead_moves M t l2 p2 H2) as (q2 & Q2 & E2).
  exists q1, q2. repeat split; try assumption.
  rewrite (dist2_peq _ _ _ _ E1 E2). apply rigid_motion_preserves_distances. exact HM.
Qed.

(* non-vacuity: a quarter turn about z plus a translation, two beads of three and two constituents *)
Example ex_rigid :
  let M := ((0, -1, 0), (1, 0, 0), (0, 0, 1)) in let t := (3 # 2, -2, 5) in
  let l1 := [(12, (1, 0, 0)); (1, (0, 2, 0)); (16, (1 # 2, 1, 3))] in let l2 := [(1, (4, 4, 4)); (3, (0, 0, 1))] in
  orthogonal M /\
  match mean l1, mean l2, mean (map_pos (aff M t) l1), mean (map_pos (aff M t) l2) with
  | RPos p1, RPos p2, RPos q1, RPos q2 => Qeq_bool (dist2 q1 q2) (dist2 p1 p2) = true /\ Qeq_bool (dist2 p1 p2) 0 = false
  | _, _, _, _ => False
  end.
Proof. split; [apply orthogonalb_sound; reflexivity|vm_compute; split; reflexivity]. Qed.
