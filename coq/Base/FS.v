(* Abstract file system used by C07: path -> option bytes as an association list,
   with the four get/set/del laws the proofs rely on. Paths of one directory;
   a backup name '#name.k#' of p is the constructor [Bk p k], so that the
   injectivity of Python's '#{name}.{idx}#'.format is a constructor fact. *)
From Coq Require Import List Bool NArith String Lia.
Import ListNotations.

Inductive path :=
| Name (n : N)
| Bk (p : path) (k : N).

Fixpoint path_eqb (a b : path) : bool :=
  match a, b with
  | Name x, Name y => N.eqb x y
  | Bk p k, Bk q j => path_eqb p q && N.eqb k j
  | _, _ => false
  end.

Lemma path_eqb_spec a b : reflect (a = b) (path_eqb a b).
Proof.
  revert b; induction a as [x|p IH k]; intros [y|q j]; cbn; try (constructor; congruence).
  - destruct (N.eqb_spec x y); constructor; congruence.
  - destruct (IH q); cbn; [|constructor; congruence].
    destruct (N.eqb_spec k j); constructor; congruence.
Qed.

Lemma path_eqb_refl a : path_eqb a a = true.
Proof. destruct (path_eqb_spec a a); congruence. Qed.

Lemma path_eqb_neq a b : a <> b -> path_eqb a b = false.
Proof. destruct (path_eqb_spec a b); congruence. Qed.

Fixpoint psize (p : path) : nat := match p with Name _ => 0 | Bk q _ => S (psize q) end.

Lemma bk_neq p k : Bk p k <> p.
Proof. intro H. apply (f_equal psize) in H. cbn in H. lia. Qed.

Lemma bk_bk_neq p k j : Bk (Bk p k) j <> p.
Proof. intro H. apply (f_equal psize) in H. cbn in H. lia. Qed.

Definition bytes := string.
Definition fs := list (path * bytes).

Fixpoint get (f : fs) (p : path) : option bytes :=
  match f with
  | [] => None
  | (q, c) :: r => if path_eqb q p then Some c else get r p
  end.

Fixpoint del (f : fs) (p : path) : fs :=
  match f with
  | [] => []
  | (q, c) :: r => if path_eqb q p then del r p else (q, c) :: del r p
  end.

Definition set (f : fs) (p : path) (c : bytes) : fs := (p, c) :: del f p.

Definition exists_ (f : fs) (p : path) : bool :=
  match get f p with Some _ => true | None => false end.

Lemma get_del_same f p : get (del f p) p = None.
Proof.
  induction f as [|[q c] r IH]; cbn; [reflexivity|].
  destruct (path_eqb q p) eqn:E; [exact IH|]. cbn. rewrite E. exact IH.
Qed.

Lemma get_del_other f p q : p <> q -> get (del f p) q = get f q.
Proof.
  intros Hn. induction f as [|[a c] r IH]; cbn; [reflexivity|].
  destruct (path_eqb_spec a p) as [->|Hap].
  - rewrite (path_eqb_neq p q Hn). exact IH.
  - cbn. destruct (path_eqb a q); [reflexivity|exact IH].
Qed.

Lemma get_set_same f p c : get (set f p c) p = Some c.
Proof. unfold set; cbn. rewrite path_eqb_refl. reflexivity. Qed.

Lemma get_set_other f p q c : p <> q -> get (set f p c) q = get f q.
Proof.
  intros Hn. unfold set; cbn. rewrite (path_eqb_neq p q Hn). apply get_del_other; exact Hn.
Qed.

(* prefix on byte strings *)
Definition is_prefix (a b : bytes) : Prop := exists s, b = (a ++ s)%string.

Lemma append_assoc (a b c : string) : ((a ++ b) ++ c = a ++ (b ++ c))%string.
Proof. induction a as [|x a IH]; cbn; [reflexivity|]. rewrite IH. reflexivity. Qed.

Lemma append_nil_r (a : string) : (a ++ "" = a)%string.
Proof. induction a as [|x a IH]; cbn; [reflexivity|]. rewrite IH. reflexivity. Qed.

Lemma is_prefix_refl a : is_prefix a a.
Proof. exists ""%string. symmetry; apply append_nil_r. Qed.

Lemma is_prefix_app a b s : is_prefix a b -> is_prefix a (b ++ s)%string.
Proof. intros [t ->]. exists (t ++ s)%string. apply append_assoc. Qed.

(* extensional equality of file systems and a canonical listing for comparison *)
Definition fs_equiv (f g : fs) : Prop := forall p, get f p = get g p.
