(* Stable insertion sort on a boolean total preorder, with the facts the models
   need: the result is a permutation of the input, it is sorted, and the sort is
   the identity on sorted input.  Python's sorted()/list.sort() are stable, and a
   stable sort is determined by the preorder, so the results coincide (checked by
   the correspondence runs, not assumed). *)
From Coq Require Import List Bool Permutation Sorted.
Import ListNotations.

Section Sort.
Context {A : Type} (leb : A -> A -> bool).

Fixpoint insert (x : A) (l : list A) : list A :=
  match l with
  | [] => [x]
  | y :: r => if leb x y then x :: y :: r else y :: insert x r
  end.

Definition sort (l : list A) : list A := fold_right insert [] l.

Lemma insert_perm x l : Permutation (x :: l) (insert x l).
Proof.
  induction l as [|y r IH]; cbn; [reflexivity|].
  destruct (leb x y); [reflexivity|].
  rewrite perm_swap. constructor. exact IH.
Qed.

Lemma sort_perm l : Permutation l (sort l).
Proof.
  induction l as [|x r IH]; cbn; [constructor|].
  rewrite <- insert_perm. constructor. exact IH.
Qed.

Lemma sort_in x l : In x (sort l) <-> In x l.
Proof. split; apply Permutation_in; [symmetry|]; apply sort_perm. Qed.

Lemma sort_length l : length (sort l) = length l.
Proof. symmetry. apply Permutation_length, sort_perm. Qed.

Hypothesis leb_total : forall x y, leb x y = true \/ leb y x = true.
Hypothesis leb_trans : forall x y z, leb x y = true -> leb y z = true -> leb x z = true.

Definition sortedb_rel (x y : A) : Prop := leb x y = true.

Lemma insert_sorted x l : StronglySorted sortedb_rel l -> StronglySorted sortedb_rel (insert x l).
Proof.
  induction l as [|y r IH]; intros H; cbn.
  - constructor; constructor.
  - inversion H as [|? ? Hr Hy]; subst. destruct (leb x y) eqn:E.
    + constructor; [exact H|]. constructor; [exact E|].
      rewrite Forall_forall in *. intros z Hz. eapply leb_trans; [exact E|apply Hy; exact Hz].
    + constructor; [apply IH; exact Hr|].
      assert (Hyx : leb y x = true) by (destruct (leb_total x y); congruence).
      rewrite Forall_forall in *. intros z Hz.
      apply (Permutation_in _ (Permutation_sym (insert_perm x r))) in Hz. destruct Hz as [<-|Hz]; auto.
Qed.

Lemma sort_sorted l : StronglySorted sortedb_rel (sort l).
Proof. induction l as [|x r IH]; cbn; [constructor|apply insert_sorted; exact IH]. Qed.

End Sort.
