(* Helpers used by the generated correspondence files (cases_k.v).
   A correspondence file defines a list of cases and evaluates, with vm_compute,
   the indices of the cases on which (a) model and implementation differ
   (bad_corr) and (b) the proved-sound checker rejects the implementation's
   output (bad_prop).  Only those two index lists are printed. *)
From Coq Require Import List Bool NArith.
Import ListNotations.

Fixpoint bad_idx_from {A} (f : A -> bool) (l : list A) (i : N) : list N :=
  match l with
  | [] => []
  | x :: r => if f x then bad_idx_from f r (N.succ i)
              else i :: bad_idx_from f r (N.succ i)
  end.

Definition bad_idx {A} (f : A -> bool) (l : list A) : list N := bad_idx_from f l 0%N.

Definition verdict {A} (corr prop : A -> bool) (l : list A) : list N * list N :=
  (bad_idx corr l, bad_idx prop l).

Lemma bad_idx_from_nil {A} (f : A -> bool) l i :
  bad_idx_from f l i = [] -> forallb f l = true.
Proof.
  revert i; induction l as [|x r IH]; intros i H; cbn in *; [reflexivity|].
  destruct (f x); [cbn; eauto | discriminate].
Qed.

Lemma bad_idx_nil {A} (f : A -> bool) l :
  bad_idx f l = [] -> forall x, In x l -> f x = true.
Proof.
  intros H; apply forallb_forall; eapply bad_idx_from_nil; exact H.
Qed.

(* strings with non-printable content are shipped as byte lists *)
From Coq Require Import String Ascii.
Fixpoint sob (l : list N) : string :=
  match l with
  | [] => EmptyString
  | b :: r => String (ascii_of_N b) (sob r)
  end.
