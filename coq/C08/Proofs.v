From Coq Require Import ZArith List Bool String Ascii Lia Permutation ZifyBool.
From V Require Import C08.Model C08.Spec.
Import ListNotations.
Open Scope Z_scope.

(* ---------- keys ---------- *)
Lemma key_eqb_spec a b : reflect (a = b) (key_eqb a b).
Proof.
  destruct a as [x|], b as [y|]; cbn; try (constructor; congruence).
  destruct (String.eqb_spec x y); constructor; congruence.
Qed.

Lemma key_eqb_refl a : key_eqb a a = true.
Proof. destruct (key_eqb_spec a a); congruence. Qed.

Lemma dget_dset d k v k' :
  dget (dset d k v) k' = if key_eqb k k' then Some v else dget d k'.
Proof.
  induction d as [|[k0 v0] r IH]; cbn.
  - reflexivity.
  - destruct (key_eqb_spec k0 k) as [->|Hne]; cbn.
    + destruct (key_eqb_spec k k'); reflexivity.
    + rewrite IH. destruct (key_eqb_spec k0 k') as [->|]; [|reflexivity].
      destruct (key_eqb_spec k k'); congruence.
Qed.

(* ---------- build ---------- *)
Definition dflt (o : option Z) : Z := match o with Some v => v | None => 0 end.

Lemma build_specs flat : forall specs ded k,
  dget (fst (build flat specs ded)) k =
  match limits_for k flat with
  | [] => dget specs k
  | l => Some (fold_left Z.max l (dflt (dget specs k)))
  end.
Proof.
  induction flat as [|[t [n|]] r IH]; intros specs ded k; cbn.
  - reflexivity.
  - rewrite IH, dget_dset.
    destruct (key_eqb_spec t k) as [->|Hne].
    + cbn. destruct (limits_for k r); reflexivity.
    + reflexivity.
  - apply IH.
Qed.

Lemma build_ded flat : forall specs ded t,
  kmem (Some t) (snd (build flat specs ded)) = named t flat || kmem (Some t) ded.
Proof.
  induction flat as [|[t' [n|]] r IH]; intros specs ded t; cbn.
  - reflexivity.
  - apply IH.
  - rewrite IH. cbn. rewrite orb_assoc, (orb_comm (named t r)). reflexivity.
Qed.

Lemma dget_build flat k :
  dget (fst (build flat [] [])) k =
  if limited k flat then Some (lim k flat) else None.
Proof.
  rewrite build_specs. unfold limited, lim. cbn.
  destruct (limits_for k flat); reflexivity.
Qed.

Lemma kmem_build flat t :
  kmem (Some t) (snd (build flat [] [])) = named t flat.
Proof. rewrite build_ded. cbn. apply orb_false_r. Qed.

Lemma fold_max_ge l : forall a, a <= fold_left Z.max l a.
Proof. induction l as [|x r IH]; intros a; cbn; [lia|]. specialize (IH (Z.max a x)); lia. Qed.

Lemma lim_nonneg k flat : 0 <= lim k flat.
Proof. apply fold_max_ge. Qed.

(* ---------- the deduction loop ---------- *)
Fixpoint deducted_limited (wc : type_counts) (flat : list spec) : Z :=
  match wc with
  | [] => 0
  | (t, c) :: r =>
      (if limited (Some t) flat then Z.max 0 (Z.min c (lim (Some t) flat)) else 0)
      + deducted_limited r flat
  end.

Fixpoint deducted_named (wc : type_counts) (flat : list spec) : Z :=
  match wc with
  | [] => 0
  | (t, c) :: r =>
      (if limited (Some t) flat then 0 else if named t flat then c else 0)
      + deducted_named r flat
  end.

Lemma pool_nonneg wc flat :
  Forall (fun p => 0 <= snd p) wc -> 0 <= pool wc flat.
Proof.
  induction 1 as [|[t c] r Hc _ IH]; cbn in *; [lia|].
  destruct (limited (Some t) flat || named t flat); lia.
Qed.

Lemma deduct_spec flat wc :
  Forall (fun p => 0 <= snd p) wc ->
  forall total blanket, 0 <= blanket ->
  deduct wc (fst (build flat [] [])) (snd (build flat [] [])) total blanket =
  total - deducted_limited wc flat - deducted_named wc flat
        - Z.min (pool wc flat) blanket.
Proof.
  induction 1 as [|[t c] r Hc Hr IH]; intros total blanket Hb; cbn [deduct].
  - cbn. lia.
  - rewrite dget_build, kmem_build.
    cbn [deducted_limited deducted_named pool fst snd] in *.
    pose proof (pool_nonneg r flat Hr) as Hp.
    destruct (limited (Some t) flat) eqn:Hl; cbn [orb].
    + rewrite IH by assumption.
      fold (deducted_limited r flat) (deducted_named r flat). lia.
    + destruct (named t flat) eqn:Hn.
      * rewrite IH by assumption. lia.
      * rewrite IH by lia. lia.
Qed.

(* ---------- counting ---------- *)
Lemma counts_split c :
  NoDup (map fst c) ->
  number_of_counts_by c WARNING = sum_counts (counts_at c WARNING) + above c.
Proof.
  induction c as [|[lvl tc] r IH]; intros Hnd; cbn [number_of_counts_by counts_at above].
  - reflexivity.
  - inversion Hnd as [|? ? Hnotin Hnd']; subst.
    unfold WARNING in *.
    destruct (lvl <? 30) eqn:H1; destruct (lvl =? 30) eqn:H2; destruct (30 <? lvl) eqn:H3;
      try lia.
    + rewrite IH by assumption. lia.
    + (* lvl = 30: no other entry has key 30 *)
      assert (Hz : counts_at r 30 = [] /\ number_of_counts_by r 30 = above r).
      { assert (lvl = 30) by lia; subst lvl. clear - Hnotin.
        induction r as [|[l tc'] r IH]; cbn [number_of_counts_by counts_at above map fst In] in *; unfold WARNING in *; [split; reflexivity|].
        assert (l <> 30) by intuition.
        assert (~ In 30 (map fst r)) by intuition.
        destruct (IH H0) as [E1 E2].
        destruct (l =? 30) eqn:?; [lia|].
        destruct (l <? 30) eqn:?; destruct (30 <? l) eqn:?; try lia; split; auto; lia. }
      destruct Hz as [E1 E2]. rewrite E2. lia.
    + rewrite IH by assumption. lia.
Qed.

Lemma sum_counts_split wc flat :
  Forall (fun p => 0 <= snd p) wc ->
  sum_counts wc =
  deducted_limited wc flat + excess_limited wc flat
  + deducted_named wc flat + pool wc flat.
Proof.
  induction 1 as [|[t c] r Hc _ IH]; cbn in *; [reflexivity|].
  pose proof (lim_nonneg (Some t) flat).
  destruct (limited (Some t) flat); cbn [orb]; [lia|].
  destruct (named t flat); lia.
Qed.

Lemma wf_at c :
  wf_counts c ->
  NoDup (map fst (counts_at c WARNING)) /\ Forall (fun p => 0 <= snd p) (counts_at c WARNING).
Proof.
  intros [_ H]. induction c as [|[lvl tc] r IH]; cbn.
  - split; constructor.
  - inversion H as [|? ? [H1 H2] Hr]; subst. cbn in *.
    destruct (lvl =? WARNING); auto.
Qed.

Lemma above_nonneg c : wf_counts c -> 0 <= above c.
Proof.
  intros [_ H]. induction H as [|[lvl tc] r [_ Hx] _ IH]; cbn in *; [lia|].
  assert (0 <= sum_counts tc).
  { clear - Hx. induction Hx as [|[t n] r Hn _ IH]; cbn in *; lia. }
  destruct (WARNING <? lvl); lia.
Qed.

Lemma excess_nonneg wc flat : 0 <= excess_limited wc flat.
Proof.
  induction wc as [|[t c] r IH]; cbn; [lia|].
  destruct (limited (Some t) flat); lia.
Qed.

(* ---------- main theorem ---------- *)
Lemma leftover_eq_formula_lemma c specifications :
  wf_counts c ->
  ignore_warnings_and_count c specifications = formula c specifications.
Proof.
  intros Hwf. unfold ignore_warnings_and_count, formula, formula_flat.
  destruct (build (List.concat specifications) [] []) as [specs ded] eqn:Hb.
  set (flat := List.concat specifications) in *.
  assert (Es : specs = fst (build flat [] [])) by (rewrite Hb; reflexivity).
  assert (Ed : ded = snd (build flat [] [])) by (rewrite Hb; reflexivity).
  destruct (wf_at c Hwf) as [_ Hnn].
  assert (Ebl : match dget specs None with Some v => v | None => 0 end = lim None flat).
  { rewrite Es, dget_build. unfold limited, lim. destruct (limits_for None flat); reflexivity. }
  rewrite Ebl, Es, Ed.
  rewrite deduct_spec by (auto using lim_nonneg).
  rewrite counts_split by (apply Hwf).
  rewrite (sum_counts_split _ flat Hnn).
  pose proof (pool_nonneg _ flat Hnn). pose proof (lim_nonneg None flat).
  lia.
Qed.

Lemma holds_on_sound c specifications out :
  holds_on c specifications out = true ->
  conflict (counts_at c WARNING) (List.concat specifications) = false ->
  out = formula c specifications.
Proof.
  unfold holds_on. intros H Hc. rewrite Hc in H. cbn in H. lia.
Qed.

Lemma model_holds c specifications :
  wf_counts c -> holds_on c specifications (ignore_warnings_and_count c specifications) = true.
Proof.
  intros H. unfold holds_on. rewrite leftover_eq_formula_lemma by assumption.
  rewrite Z.eqb_refl. apply orb_true_r.
Qed.

(* ---------- corollaries ---------- *)
Lemma leftover_nonneg_lemma c s : wf_counts c -> 0 <= ignore_warnings_and_count c s.
Proof.
  intros H. rewrite leftover_eq_formula_lemma by assumption. unfold formula, formula_flat.
  pose proof (above_nonneg c H). pose proof (excess_nonneg (counts_at c WARNING) (List.concat s)). lia.
Qed.

Lemma errors_never_waived_lemma c s : wf_counts c -> above c <= ignore_warnings_and_count c s.
Proof.
  intros H. rewrite leftover_eq_formula_lemma by assumption. unfold formula, formula_flat.
  pose proof (excess_nonneg (counts_at c WARNING) (List.concat s)). lia.
Qed.

Lemma excess_zero_iff wc flat :
  Forall (fun p => 0 <= snd p) wc ->
  excess_limited wc flat = 0 <->
  (forall t n, In (t, n) wc -> limited (Some t) flat = true -> n <= lim (Some t) flat).
Proof.
  induction 1 as [|[t c] r Hc Hr IH]; cbn [excess_limited].
  - split; [intros _ ? ? []| reflexivity].
  - pose proof (excess_nonneg r flat). split.
    + intros E t' n [Heq|Hin] Hl.
      * inversion Heq; subst. rewrite Hl in E. lia.
      * apply IH; auto. destruct (limited (Some t) flat); lia.
    + intros Hall.
      assert (excess_limited r flat = 0) as -> by (apply IH; intros; eapply Hall; eauto; right; eauto).
      destruct (limited (Some t) flat) eqn:Hl; [|lia].
      specialize (Hall t c (or_introl eq_refl) Hl). lia.
Qed.

Lemma leftover_zero_iff_lemma c s :
  wf_counts c -> (ignore_warnings_and_count c s = 0 <-> all_covered c s).
Proof.
  intros H. rewrite leftover_eq_formula_lemma by assumption. unfold formula, formula_flat, all_covered.
  destruct (wf_at c H) as [_ Hnn].
  pose proof (above_nonneg c H).
  pose proof (excess_nonneg (counts_at c WARNING) (List.concat s)).
  rewrite <- (excess_zero_iff _ (List.concat s) Hnn). lia.
Qed.

(* an allowance for a type that did not occur changes nothing *)
Lemma limits_for_other k t n flat :
  k <> t -> limits_for k ((t, n) :: flat) = limits_for k flat.
Proof.
  intros Hne. cbn. destruct n; [|reflexivity].
  destruct (key_eqb_spec t k); congruence.
Qed.

Lemma absent_type_flat c (t : wtype) (n : option Z) flat :
  ~ In t (map fst (counts_at c WARNING)) ->
  formula_flat c ((Some t, n) :: flat) = formula_flat c flat.
Proof.
  intros Hnot. unfold formula_flat. set (wc := counts_at c WARNING) in *.
  assert (El : lim None ((Some t, n) :: flat) = lim None flat).
  { unfold lim. rewrite limits_for_other by congruence. reflexivity. }
  rewrite El.
  assert (E : excess_limited wc ((Some t, n) :: flat) = excess_limited wc flat /\
              pool wc ((Some t, n) :: flat) = pool wc flat).
  { clearbody wc. induction wc as [|[t' c'] r IH]; cbn [excess_limited pool]; [split; reflexivity|].
    cbn in Hnot.
    destruct IH as [E1 E2]; [tauto|].
    assert (Hne : Some t' <> Some t) by (intros [=]; tauto).
    unfold limited, lim. rewrite limits_for_other by congruence.
    assert (En : named t' ((Some t, n) :: flat) = named t' flat).
    { cbn [named]. destruct n; [reflexivity|]. destruct (key_eqb_spec (Some t) (Some t')); [congruence|reflexivity]. }
    rewrite En. fold (lim (Some t') flat). fold (limited (Some t') flat).
    rewrite E1, E2. split; reflexivity. }
  destruct E as [-> ->]. reflexivity.
Qed.

Lemma absent_type_irrelevant_lemma c (t : wtype) (n : option Z) s :
  ~ In t (map fst (counts_at c WARNING)) ->
  formula c ([(Some t, n)] :: s) = formula c s.
Proof. intros H. unfold formula. cbn [List.concat app]. apply absent_type_flat, H. Qed.

(* ---------- order independence ---------- *)
Lemma fold_max_perm l l' : Permutation l l' -> forall a, fold_left Z.max l a = fold_left Z.max l' a.
Proof.
  induction 1; intros a; cbn; auto.
  - f_equal. lia.
  - congruence.
Qed.

Lemma limits_for_perm k f f' : Permutation f f' -> Permutation (limits_for k f) (limits_for k f').
Proof.
  induction 1 as [|[t [n|]] ? ? ? IH|[t1 [n1|]] [t2 [n2|]] ?|]; cbn; auto.
  - destruct (key_eqb t k); auto.
  - destruct (key_eqb t1 k), (key_eqb t2 k); auto. apply perm_swap.
  - eapply Permutation_trans; eauto.
Qed.

Lemma lim_perm k f f' : Permutation f f' -> lim k f = lim k f'.
Proof. intros H. unfold lim. apply fold_max_perm, limits_for_perm, H. Qed.

Lemma limited_perm k f f' : Permutation f f' -> limited k f = limited k f'.
Proof.
  intros H. unfold limited. pose proof (limits_for_perm k _ _ H) as P.
  destruct (limits_for k f), (limits_for k f'); auto.
  - apply Permutation_nil in P; discriminate.
  - apply Permutation_sym, Permutation_nil in P; discriminate.
Qed.

Lemma named_perm t f f' : Permutation f f' -> named t f = named t f'.
Proof.
  induction 1 as [|[t1 [n|]] ? ? ? IH|[t1 [n1|]] [t2 [n2|]] ?|]; cbn; auto.
  - congruence.
  - rewrite !orb_assoc, (orb_comm (key_eqb t2 (Some t))). reflexivity.
  - congruence.
Qed.

Lemma excess_pool_perm_flat wc f f' : Permutation f f' ->
  excess_limited wc f = excess_limited wc f' /\ pool wc f = pool wc f'.
Proof.
  intros H. induction wc as [|[t c] r [IH1 IH2]]; cbn; [auto|].
  rewrite (limited_perm _ _ _ H), (lim_perm _ _ _ H), (named_perm _ _ _ H), IH1, IH2. auto.
Qed.

Lemma excess_pool_perm_wc wc wc' f : Permutation wc wc' ->
  excess_limited wc f = excess_limited wc' f /\ pool wc f = pool wc' f.
Proof.
  induction 1 as [|[t c] ? ? ? [IH1 IH2]|[t1 c1] [t2 c2] ?|? ? ? ? [IH1 IH2] ? [IH3 IH4]]; cbn; auto.
  - rewrite IH1, IH2; auto.
  - split; lia.
  - split; congruence.
Qed.

Lemma formula_perm c s wc' flat' :
  Permutation (counts_at c WARNING) wc' ->
  Permutation (List.concat s) flat' ->
  formula c s = above c + excess_limited wc' flat' + Z.max 0 (pool wc' flat' - lim None flat').
Proof.
  intros Hw Hf. unfold formula, formula_flat.
  destruct (excess_pool_perm_flat (counts_at c WARNING) _ _ Hf) as [-> ->].
  destruct (excess_pool_perm_wc _ _ flat' Hw) as [-> ->].
  rewrite (lim_perm _ _ _ Hf). reflexivity.
Qed.

(* The result depends on the specification only through the flattened multiset
   of (type, count) pairs, and on the counter only through the multiset of
   warning-level (type, count) entries and the number of records above. *)
Lemma leftover_perm_lemma c c' s s' :
  wf_counts c -> wf_counts c' ->
  Permutation (counts_at c WARNING) (counts_at c' WARNING) ->
  above c = above c' ->
  Permutation (List.concat s) (List.concat s') ->
  ignore_warnings_and_count c s = ignore_warnings_and_count c' s'.
Proof.
  intros H H' Hw Ha Hf.
  rewrite !leftover_eq_formula_lemma by assumption.
  rewrite (formula_perm c s _ _ Hw Hf). rewrite Ha. reflexivity.
Qed.

(* ---------- maxwarn parser: the three documented forms ---------- *)
Fixpoint no_colon (s : string) : bool :=
  match s with
  | EmptyString => true
  | String c r => negb (Ascii.eqb c ":"%char) && no_colon r
  end.

Lemma split_no_colon s : no_colon s = true -> split_on ":"%char s = [s].
Proof.
  induction s as [|c r IH]; cbn; [reflexivity|].
  intros H. apply andb_prop in H as [H1 H2].
  destruct (Ascii.eqb c ":"); [discriminate|]. rewrite IH by assumption. reflexivity.
Qed.

Lemma split_one_colon a b :
  no_colon a = true -> no_colon b = true ->
  split_on ":"%char (a ++ String ":"%char b) = [a; b].
Proof.
  intros Ha Hb. induction a as [|c r IH]; cbn.
  - rewrite split_no_colon by assumption. reflexivity.
  - cbn in Ha. apply andb_prop in Ha as [H1 H2].
    destruct (Ascii.eqb c ":"); [discriminate|]. rewrite IH by assumption. reflexivity.
Qed.

Lemma maxwarn_number_lemma s n :
  no_colon s = true -> py_int s = Some n -> maxwarn s = PSpec (None, Some n).
Proof. intros H1 H2. unfold maxwarn. rewrite split_no_colon, H2 by assumption. reflexivity. Qed.

Lemma maxwarn_name_lemma s :
  no_colon s = true -> py_int s = None -> maxwarn s = PSpec (Some s, None).
Proof. intros H1 H2. unfold maxwarn. rewrite split_no_colon, H2 by assumption. reflexivity. Qed.

Lemma maxwarn_type_count_lemma t cnt n :
  no_colon t = true -> no_colon cnt = true -> py_int cnt = Some n ->
  maxwarn (t ++ String ":"%char cnt) = PSpec (Some t, Some n).
Proof. intros H1 H2 H3. unfold maxwarn. rewrite split_one_colon, H3 by assumption. reflexivity. Qed.

Lemma maxwarn_bad_count_lemma t cnt :
  no_colon t = true -> no_colon cnt = true -> py_int cnt = None ->
  maxwarn (t ++ String ":"%char cnt) = PError.
Proof. intros H1 H2 H3. unfold maxwarn. rewrite split_one_colon, H3 by assumption. reflexivity. Qed.

Fixpoint colons (s : string) : nat :=
  match s with
  | EmptyString => 0
  | String c r => if Ascii.eqb c ":"%char then S (colons r) else colons r
  end.

Lemma split_length_colons s : List.length (split_on ":"%char s) = S (colons s).
Proof.
  induction s as [|c r IH]; cbn [split_on colons List.length]; [reflexivity|].
  destruct (Ascii.eqb c ":"); cbn [List.length]; [rewrite IH; reflexivity|].
  destruct (split_on ":" r); cbn [List.length] in *; [discriminate| exact IH].
Qed.

Lemma maxwarn_too_many_lemma s : (2 <= colons s)%nat -> maxwarn s = PError.
Proof.
  intros H. unfold maxwarn. pose proof (split_length_colons s) as E.
  destruct (split_on ":" s) as [|a [|b [|c r]]]; cbn [List.length] in E; try lia. reflexivity.
Qed.
