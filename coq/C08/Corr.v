(* C08 — case type and the two boolean functions evaluated on generated cases. *)
From Coq Require Import ZArith List Bool String Ascii.
From V Require Import C08.Model C08.Spec.
Import ListNotations.
Open Scope Z_scope.

Inductive case :=
| CParse (value : string) (impl : parsed)
| CCount (c : counts) (spec_strings : list (list string)) (impl_parsed : list (list spec)) (impl_out : Z).

Definition opt_eqb {A} (f : A -> A -> bool) (a b : option A) : bool :=
  match a, b with Some x, Some y => f x y | None, None => true | _, _ => false end.

Definition spec_eqb (a b : spec) : bool :=
  opt_eqb String.eqb (fst a) (fst b) && opt_eqb Z.eqb (snd a) (snd b).

Definition parsed_eqb (a b : parsed) : bool :=
  match a, b with
  | PSpec x, PSpec y => spec_eqb x y
  | PError, PError => true
  | _, _ => false
  end.

Fixpoint list_eqb {A} (f : A -> A -> bool) (a b : list A) : bool :=
  match a, b with
  | [], [] => true
  | x :: r, y :: s => f x y && list_eqb f r s
  | _, _ => false
  end.

Definition corr (k : case) : bool :=
  match k with
  | CParse v impl => parsed_eqb (maxwarn v) impl
  | CCount c ss ip out =>
      list_eqb (list_eqb parsed_eqb) (map (map maxwarn) ss) (map (map PSpec) ip)
      && (ignore_warnings_and_count c ip =? out)
  end.

Definition prop (k : case) : bool :=
  match k with
  (* the -maxwarn value grammar: [maxwarn] is proved to be exactly the three documented forms (a number, a type name,
     type:number with the number kept as written, negative included) and to reject everything else *)
  | CParse v impl => parsed_eqb (maxwarn v) impl
  | CCount c _ ip out => holds_on c ip out
  end.
