(* C08 — executable model of
     vermouth/log_helpers.py : CountingHandler.number_of_counts_by,
                               ignore_warnings_and_count
     bin/martinize2          : maxwarn
   Only definitions here (the model keeps running when a proof breaks). *)
From Coq Require Import ZArith List Bool String Ascii.
Import ListNotations.
Open Scope Z_scope.


(* ---------------------------------------------------------------- *)
(* counts : defaultdict(level -> defaultdict(type -> int)) in insertion order *)
Definition wtype := string.
Definition type_counts := list (wtype * Z).
Definition counts := list (Z * type_counts).

(* one parsed -maxwarn value: (warning_type | None, count | None) *)
Definition spec := (option wtype * option Z)%type.

Definition WARNING : Z := 30.

Definition key_eqb (a b : option wtype) : bool :=
  match a, b with
  | None, None => true
  | Some x, Some y => String.eqb x y
  | _, _ => false
  end.

(* log_helpers.py:204-228  number_of_counts_by(level=level, type=None) *)
Fixpoint sum_counts (tc : type_counts) : Z :=
  match tc with
  | [] => 0
  | (_, n) :: r => n + sum_counts r
  end.

Fixpoint number_of_counts_by (c : counts) (level : Z) : Z :=
  match c with
  | [] => 0
  | (lvl, tc) :: r =>
      if lvl <? level then number_of_counts_by r level
      else sum_counts tc + number_of_counts_by r level
  end.

(* counter.counts[level] *)
Fixpoint counts_at (c : counts) (level : Z) : type_counts :=
  match c with
  | [] => []
  | (lvl, tc) :: r => if lvl =? level then tc else counts_at r level
  end.

(* dict specs : key -> int *)
Fixpoint dget (d : list (option wtype * Z)) (k : option wtype) : option Z :=
  match d with
  | [] => None
  | (k', v) :: r => if key_eqb k' k then Some v else dget r k
  end.

Fixpoint dset (d : list (option wtype * Z)) (k : option wtype) (v : Z) :=
  match d with
  | [] => [(k, v)]
  | (k', v') :: r => if key_eqb k' k then (k', v) :: r else (k', v') :: dset r k v
  end.

Fixpoint kmem (k : option wtype) (s : list (option wtype)) : bool :=
  match s with
  | [] => false
  | k' :: r => key_eqb k' k || kmem k r
  end.

(* log_helpers.py:257-264: the two nested loops building specs / deduct_all *)
Fixpoint build (flat : list spec) (specs : list (option wtype * Z))
         (ded : list (option wtype)) :=
  match flat with
  | [] => (specs, ded)
  | (t, None) :: r => build r specs (t :: ded)
  | (t, Some n) :: r =>
      let old := match dget specs t with Some v => v | None => 0 end in
      build r (dset specs t (Z.max old n)) ded
  end.

(* log_helpers.py:268-279: the deduction loop *)
Fixpoint deduct (wc : type_counts) (specs : list (option wtype * Z))
         (ded : list (option wtype)) (total blanket : Z) : Z :=
  match wc with
  | [] => total
  | (t, c) :: r =>
      match dget specs (Some t) with
      | Some lim => deduct r specs ded (total - Z.max 0 (Z.min c lim)) blanket
      | None =>
          if kmem (Some t) ded then deduct r specs ded (total - c) blanket
          else deduct r specs ded (total - Z.min c blanket) (Z.max 0 (blanket - c))
      end
  end.

Definition ignore_warnings_and_count (c : counts) (specifications : list (list spec)) : Z :=
  let number_of_warnings := number_of_counts_by c WARNING in
  let '(specs, ded) := build (List.concat specifications) [] [] in
  let blanket := match dget specs None with Some v => v | None => 0 end in
  deduct (counts_at c WARNING) specs ded number_of_warnings blanket.

(* ---------------------------------------------------------------- *)
(* bin/martinize2:234-286  maxwarn(value)                            *)

(* str.split(sep) for a one-character separator: always >= 1 piece *)
Fixpoint split_on (sep : ascii) (s : string) : list string :=
  match s with
  | EmptyString => [EmptyString]
  | String c r =>
      if Ascii.eqb c sep then EmptyString :: split_on sep r
      else match split_on sep r with
           | [] => [String c EmptyString]   (* unreachable *)
           | p :: ps => String c p :: ps
           end
  end.

(* Python int(str): ASCII fragment.  For an ASCII str CPython uses the C-locale
   isspace set (9..13, 32); 28..31 are *not* skipped (checked by T2). *)
Definition is_space (c : ascii) : bool :=
  let n := N_of_ascii c in
  ((9 <=? n) && (n <=? 13) || (n =? 32))%N.

Definition is_digit (c : ascii) : bool :=
  let n := N_of_ascii c in ((48 <=? n) && (n <=? 57))%N.

Definition digit_val (c : ascii) : Z := Z.of_N (N_of_ascii c) - 48.

Fixpoint lstrip (s : string) : string :=
  match s with
  | String c r => if is_space c then lstrip r else s
  | EmptyString => s
  end.

(* digits with single underscores strictly between digits; then optional
   trailing whitespace only.  [st]: 0 = need digit (start or after '_'),
   1 = after a digit. *)
Fixpoint only_space (s : string) : bool :=
  match s with
  | EmptyString => true
  | String c r => is_space c && only_space r
  end.

Fixpoint digits (s : string) (acc : Z) (after_digit : bool) : option Z :=
  match s with
  | EmptyString => if after_digit then Some acc else None
  | String c r =>
      if is_digit c then digits r (10 * acc + digit_val c) true
      else if Ascii.eqb c "_"%char then
             (if after_digit then digits r acc false else None)
      else if after_digit && is_space c then
             (if only_space r then Some acc else None)
      else None
  end.

Definition py_int (s : string) : option Z :=
  match lstrip s with
  | String "-"%char r => option_map Z.opp (digits r 0 false)
  | String "+"%char r => digits r 0 false
  | r => digits r 0 false
  end.

Inductive parsed :=
| PSpec (s : spec)
| PError.

Definition maxwarn (value : string) : parsed :=
  match split_on ":"%char value with
  | [_] =>
      match py_int value with
      | Some n => PSpec (None, Some n)
      | None => PSpec (Some value, None)
      end
  | [ty; cnt] =>
      match py_int cnt with
      | Some n => PSpec (Some ty, Some n)
      | None => PError
      end
  | _ => PError
  end.
