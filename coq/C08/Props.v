(* C08 — property theorems only.  Each is closed by [exact lemma] and followed
   by Print Assumptions; the check harvests those lines into evidence. *)
From Coq Require Import ZArith List Bool String Ascii Permutation.
From V Require Import C08.Model C08.Spec C08.Proofs.
Import ListNotations.
Open Scope Z_scope.

(* The number left equals: records above WARNING + per limited type the excess
   over its largest limit + excess of the remaining ones over the blanket
   allowance; types waived by name contribute nothing. *)
Theorem leftover_eq_formula : forall c specifications,
  wf_counts c ->
  ignore_warnings_and_count c specifications = formula c specifications.
Proof. exact leftover_eq_formula_lemma. Qed.
Print Assumptions leftover_eq_formula.

Theorem leftover_nonneg : forall c s, wf_counts c -> 0 <= ignore_warnings_and_count c s.
Proof. exact leftover_nonneg_lemma. Qed.
Print Assumptions leftover_nonneg.

Theorem leftover_zero_iff_all_covered : forall c s,
  wf_counts c -> (ignore_warnings_and_count c s = 0 <-> all_covered c s).
Proof. exact leftover_zero_iff_lemma. Qed.
Print Assumptions leftover_zero_iff_all_covered.

Theorem errors_never_waived : forall c s,
  wf_counts c -> above c <= ignore_warnings_and_count c s.
Proof. exact errors_never_waived_lemma. Qed.
Print Assumptions errors_never_waived.

Theorem absent_type_irrelevant : forall c (t : wtype) (n : option Z) s,
  wf_counts c ->
  ~ In t (map fst (counts_at c WARNING)) ->
  ignore_warnings_and_count c ([(Some t, n)] :: s) = ignore_warnings_and_count c s.
Proof.
  intros c t n s H Hn. rewrite !leftover_eq_formula_lemma by assumption.
  exact (absent_type_irrelevant_lemma c t n s Hn).
Qed.
Print Assumptions absent_type_irrelevant.

(* independence of dict iteration order and of the order of the allowances *)
Theorem leftover_perm : forall c c' s s',
  wf_counts c -> wf_counts c' ->
  Permutation (counts_at c WARNING) (counts_at c' WARNING) ->
  above c = above c' ->
  Permutation (List.concat s) (List.concat s') ->
  ignore_warnings_and_count c s = ignore_warnings_and_count c' s'.
Proof. exact leftover_perm_lemma. Qed.
Print Assumptions leftover_perm.

(* the oracle used on implementation outputs is sound *)
Theorem holds_on_sound_thm : forall c specifications out,
  holds_on c specifications out = true ->
  conflict (counts_at c WARNING) (List.concat specifications) = false ->
  out = formula c specifications.
Proof. exact holds_on_sound. Qed.
Print Assumptions holds_on_sound_thm.

(* the -maxwarn value parser: the three documented forms, everything else rejected *)
Theorem maxwarn_number : forall s n,
  no_colon s = true -> py_int s = Some n -> maxwarn s = PSpec (None, Some n).
Proof. exact maxwarn_number_lemma. Qed.
Print Assumptions maxwarn_number.

Theorem maxwarn_name : forall s,
  no_colon s = true -> py_int s = None -> maxwarn s = PSpec (Some s, None).
Proof. exact maxwarn_name_lemma. Qed.
Print Assumptions maxwarn_name.

Theorem maxwarn_type_count : forall t cnt n,
  no_colon t = true -> no_colon cnt = true -> py_int cnt = Some n ->
  maxwarn (t ++ String ":"%char cnt) = PSpec (Some t, Some n).
Proof. exact maxwarn_type_count_lemma. Qed.
Print Assumptions maxwarn_type_count.

Theorem maxwarn_bad_count_rejected : forall t cnt,
  no_colon t = true -> no_colon cnt = true -> py_int cnt = None ->
  maxwarn (t ++ String ":"%char cnt) = PError.
Proof. exact maxwarn_bad_count_lemma. Qed.
Print Assumptions maxwarn_bad_count_rejected.

Theorem maxwarn_too_many_colons_rejected : forall s,
  (2 <= colons s)%nat -> maxwarn s = PError.
Proof. exact maxwarn_too_many_lemma. Qed.
Print Assumptions maxwarn_too_many_colons_rejected.

(* non-vacuity: a concrete counter meets wf_counts and exercises every clause *)
Example nonvacuous :
  let c := [(30, [("general", 5); ("unmapped-atom", 3); ("x", 4); ("y", 2)]); (40, [("general", 1)])]%string in
  let s := [[(Some "general", Some 2); (None, Some 1)]; [(Some "x", None); (Some "general", Some (-7))]]%string in
  wf_counts c /\ conflict (counts_at c WARNING) (List.concat s) = false /\
  ignore_warnings_and_count c s = 1 + 3 + (3 + 2 - 1).
Proof.
  cbv zeta. split; [|split; vm_compute; reflexivity].
  split.
  - repeat constructor; cbn; intuition discriminate.
  - repeat constructor; cbn; try (intuition discriminate); intros [=].
Qed.
