(* C08 — the property, stated independently of the code's loops, and the
   decidable checker [holds_on] used as oracle on implementation outputs. *)
From Coq Require Import ZArith List Bool String.
From V Require Import C08.Model.
Import ListNotations.
Open Scope Z_scope.

(* records strictly above WARNING level *)
Fixpoint above (c : counts) : Z :=
  match c with
  | [] => 0
  | (lvl, tc) :: r => if WARNING <? lvl then sum_counts tc + above r else above r
  end.

(* all numeric limits given for key k (k = None: the blanket allowance) *)
Fixpoint limits_for (k : option wtype) (flat : list spec) : list Z :=
  match flat with
  | [] => []
  | (t, Some n) :: r => if key_eqb t k then n :: limits_for k r else limits_for k r
  | (_, None) :: r => limits_for k r
  end.

Definition limited (k : option wtype) (flat : list spec) : bool :=
  match limits_for k flat with [] => false | _ => true end.

(* the largest limit given, never below 0; 0 when none was given *)
Definition lim (k : option wtype) (flat : list spec) : Z :=
  fold_left Z.max (limits_for k flat) 0.

Fixpoint named (t : wtype) (flat : list spec) : bool :=
  match flat with
  | [] => false
  | (t', None) :: r => key_eqb t' (Some t) || named t r
  | (_, Some _) :: r => named t r
  end.

(* a type both waived by name and given a numeric limit: left unspecified *)
Definition conflict (wc : type_counts) (flat : list spec) : bool :=
  existsb (fun p => limited (Some (fst p)) flat && named (fst p) flat) wc.

Fixpoint excess_limited (wc : type_counts) (flat : list spec) : Z :=
  match wc with
  | [] => 0
  | (t, c) :: r =>
      (if limited (Some t) flat then Z.max 0 (c - lim (Some t) flat) else 0)
      + excess_limited r flat
  end.

Fixpoint pool (wc : type_counts) (flat : list spec) : Z :=
  match wc with
  | [] => 0
  | (t, c) :: r =>
      (if limited (Some t) flat || named t flat then 0 else c) + pool r flat
  end.

Definition formula_flat (c : counts) (flat : list spec) : Z :=
  let wc := counts_at c WARNING in
  above c + excess_limited wc flat + Z.max 0 (pool wc flat - lim None flat).

Definition formula (c : counts) (specifications : list (list spec)) : Z :=
  formula_flat c (List.concat specifications).

(* well-formedness of a counter: dict keys are unique, counts are >= 0 *)
Definition wf_counts (c : counts) : Prop :=
  NoDup (map fst c) /\
  Forall (fun lt => NoDup (map fst (snd lt)) /\ Forall (fun p => 0 <= snd p) (snd lt)) c.

(* every warning-level record is covered by some allowance *)
Definition all_covered (c : counts) (specifications : list (list spec)) : Prop :=
  let flat := List.concat specifications in
  let wc := counts_at c WARNING in
  above c = 0 /\
  (forall t n, In (t, n) wc -> limited (Some t) flat = true -> n <= lim (Some t) flat) /\
  pool wc flat <= lim None flat.

(* the checker: the implementation's answer [out] must be the formula,
   except on inputs the property leaves unspecified *)
Definition holds_on (c : counts) (specifications : list (list spec)) (out : Z) : bool :=
  conflict (counts_at c WARNING) (List.concat specifications) || (out =? formula c specifications).
