From Coq Require Import List Bool ZArith QArith Qabs Permutation Lqa Lia.
From V Require Import C09.Model.
Import ListNotations.
Open Scope Q_scope.

Definition T := (Q * (Q * Q * Q))%type.

(* ---------- bounding box ---------- *)
Definition xs (l : list T) : list Q := map (fun t => fst (fst (snd t))) l.
Definition ys (l : list T) : list Q := map (fun t => snd (fst (snd t))) l.
Definition zs (l : list T) : list Q := map (fun t => snd (snd t)) l.

Lemma sw_bounds_x l lo hi :
  Forall (fun t => 0 <= fst t) l -> Forall (fun x => lo <= x /\ x <= hi) (xs l) ->
  lo * sw l <= swx l /\ swx l <= hi * sw l.
Proof.
  induction l as [|[w [[x y] z]] r IH]; intros Hw Hx; cbn in *; [split; lra|].
  inversion Hw as [|? ? Hw0 Hwr]; inversion Hx as [|? ? [Hlo Hhi] Hxr]; subst. cbn in *.
  destruct (IH Hwr Hxr) as [I1 I2]. split; nra.
Qed.

Lemma sw_bounds_y l lo hi :
  Forall (fun t => 0 <= fst t) l -> Forall (fun x => lo <= x /\ x <= hi) (ys l) ->
  lo * sw l <= swy l /\ swy l <= hi * sw l.
Proof.
  induction l as [|[w [[x y] z]] r IH]; intros Hw Hx; cbn in *; [split; lra|].
  inversion Hw as [|? ? Hw0 Hwr]; inversion Hx as [|? ? [Hlo Hhi] Hxr]; subst. cbn in *.
  destruct (IH Hwr Hxr) as [I1 I2]. split; nra.
Qed.

Lemma sw_bounds_z l lo hi :
  Forall (fun t => 0 <= fst t) l -> Forall (fun x => lo <= x /\ x <= hi) (zs l) ->
  lo * sw l <= swz l /\ swz l <= hi * sw l.
Proof.
  induction l as [|[w [[x y] z]] r IH]; intros Hw Hx; cbn in *; [split; lra|].
  inversion Hw as [|? ? Hw0 Hwr]; inversion Hx as [|? ? [Hlo Hhi] Hxr]; subst. cbn in *.
  destruct (IH Hwr Hxr) as [I1 I2]. split; nra.
Qed.

Lemma div_bounds a s lo hi : 0 < s -> lo * s <= a -> a <= hi * s -> lo <= a / s /\ a / s <= hi.
Proof.
  intros Hs H1 H2. split.
  - apply Qle_shift_div_l; [exact Hs|exact H1].
  - apply Qle_shift_div_r; [exact Hs|exact H2].
Qed.

Lemma sw_nonneg l : Forall (fun t : T => 0 <= fst t) l -> 0 <= sw l.
Proof.
  induction l as [|[w p] r IH]; intros H; cbn; [lra|]. inversion H; subst. cbn in *. specialize (IH H3). lra.
Qed.

Lemma in_bounding_box_lemma l lox hix loy hiy loz hiz x y z :
  Forall (fun t => 0 <= fst t) l ->
  Forall (fun v => lox <= v /\ v <= hix) (xs l) ->
  Forall (fun v => loy <= v /\ v <= hiy) (ys l) ->
  Forall (fun v => loz <= v /\ v <= hiz) (zs l) ->
  mean l = RPos (x, y, z) ->
  (lox <= x /\ x <= hix) /\ (loy <= y /\ y <= hiy) /\ (loz <= z /\ z <= hiz).
Proof.
  intros Hw Hx Hy Hz. unfold mean. destruct (Qlt_le_dec (Qabs (sw l)) eps) as [|Hge]; [discriminate|].
  intros [= <- <- <-]. pose proof (sw_nonneg l Hw) as Hs0.
  assert (Hs : 0 < sw l).
  { rewrite Qabs_pos in Hge by exact Hs0. unfold eps in Hge. eapply Qlt_le_trans; [|exact Hge]. reflexivity. }
  destruct (sw_bounds_x l lox hix Hw Hx). destruct (sw_bounds_y l loy hiy Hw Hy). destruct (sw_bounds_z l loz hiz Hw Hz).
  repeat split; eapply div_bounds; eauto.
Qed.

(* ---------- affine equivariance ---------- *)
Record affine := { a11 : Q; a12 : Q; a13 : Q; a21 : Q; a22 : Q; a23 : Q; a31 : Q; a32 : Q; a33 : Q;
                   t1 : Q; t2 : Q; t3 : Q }.
Definition app_affine (f : affine) (p : Q * Q * Q) : Q * Q * Q :=
  let '(x, y, z) := p in
  (a11 f * x + a12 f * y + a13 f * z + t1 f, a21 f * x + a22 f * y + a23 f * z + t2 f,
   a31 f * x + a32 f * y + a33 f * z + t3 f).
Definition map_pos (f : affine) (l : list T) : list T := map (fun t => (fst t, app_affine f (snd t))) l.

Lemma sums_affine f l :
  sw (map_pos f l) == sw l /\
  swx (map_pos f l) == a11 f * swx l + a12 f * swy l + a13 f * swz l + t1 f * sw l /\
  swy (map_pos f l) == a21 f * swx l + a22 f * swy l + a23 f * swz l + t2 f * sw l /\
  swz (map_pos f l) == a31 f * swx l + a32 f * swy l + a33 f * swz l + t3 f * sw l.
Proof.
  induction l as [|[w [[x y] z]] r (I0 & I1 & I2 & I3)]; cbn.
  - repeat split; ring.
  - fold (map_pos f r). rewrite I0, I1, I2, I3. repeat split; ring.
Qed.

Definition peq (p q : Q * Q * Q) : Prop :=
  fst (fst p) == fst (fst q) /\ snd (fst p) == snd (fst q) /\ snd p == snd q.

Lemma affine_equivariant_lemma f l p :
  mean l = RPos p -> exists p', mean (map_pos f l) = RPos p' /\ peq p' (app_affine f p).
Proof.
  unfold mean. destruct (sums_affine f l) as (S0 & S1 & S2 & S3).
  destruct (Qlt_le_dec (Qabs (sw l)) eps) as [|Hge]; [discriminate|]. intros [= <-].
  destruct (Qlt_le_dec (Qabs (sw (map_pos f l))) eps) as [Hlt|_].
  - exfalso. rewrite S0 in Hlt. exact (Qlt_not_le _ _ Hlt Hge).
  - eexists. split; [reflexivity|].
    assert (Hne : ~ sw l == 0).
    { intros E. rewrite E in Hge. cbn in Hge. unfold eps, Qle in Hge. cbn in Hge. lia. }
    unfold peq, app_affine; cbn. rewrite S0, S1, S2, S3. repeat split; field; exact Hne.
Qed.

(* ---------- constituents without coordinates never contribute ---------- *)
Lemma flat_map_filter_pos (f : cons -> Q) g :
  flat_map (fun c => match c_pos c with Some p => [(f c, p)] | None => [] end) (filter has_pos g)
  = flat_map (fun c => match c_pos c with Some p => [(f c, p)] | None => [] end) g.
Proof.
  induction g as [|c r IH]; cbn; [reflexivity|]. unfold has_pos at 1.
  destruct (c_pos c) eqn:E; cbn; [rewrite E; cbn; f_equal; exact IH|exact IH].
Qed.

Lemma terms_filter b :
  terms b = terms {| b_graph := filter has_pos (b_graph b); b_mw := b_mw b; b_use_cw := b_use_cw b |}.
Proof. unfold terms, wt; cbn. symmetry. apply flat_map_filter_pos. Qed.

(* ---------- NaN exactly when the positioned weights sum (almost) to zero ---------- *)
Lemma nan_iff_lemma l : mean l = RNaN <-> Qabs (sw l) < eps.
Proof.
  unfold mean. destruct (Qlt_le_dec (Qabs (sw l)) eps) as [H|H]; split; intros; try reflexivity; try discriminate; auto.
  exfalso. exact (Qlt_not_le _ _ H0 H).
Qed.

(* ---------- weights stay paired with their atoms: any reordering of the constituents
              (together with their weights) leaves the result unchanged ---------- *)
Lemma sums_perm l l' : Permutation l l' ->
  sw l == sw l' /\ swx l == swx l' /\ swy l == swy l' /\ swz l == swz l'.
Proof.
  induction 1 as [|[w [[x y] z]] l l' H (I0 & I1 & I2 & I3)|[w1 [[x1 y1] z1]] [w2 [[x2 y2] z2]] l|l l' l'' H1 (A0 & A1 & A2 & A3) H2 (B0 & B1 & B2 & B3)]; cbn.
  - repeat split; reflexivity.
  - rewrite I0, I1, I2, I3. repeat split; reflexivity.
  - repeat split; ring.
  - rewrite A0, A1, A2, A3. auto.
Qed.

Definition req (a b : result) : Prop :=
  match a, b with
  | RPos p, RPos q => peq p q
  | RNaN, RNaN | RKeyError, RKeyError => True
  | _, _ => False
  end.

Lemma mean_perm l l' : Permutation l l' -> req (mean l) (mean l').
Proof.
  intros H. destruct (sums_perm l l' H) as (S0 & S1 & S2 & S3). unfold mean.
  destruct (Qlt_le_dec (Qabs (sw l)) eps) as [H1|H1], (Qlt_le_dec (Qabs (sw l')) eps) as [H2|H2]; cbn.
  - exact I.
  - rewrite S0 in H1. exact (Qlt_not_le _ _ H1 H2).
  - rewrite S0 in H1. exact (Qlt_not_le _ _ H2 H1).
  - unfold peq; cbn. rewrite S0, S1, S2, S3. repeat split; reflexivity.
Qed.

(* particles without constituents change nothing for the others *)
Lemma graphless_transparent ps :
  existsb particle_key_error ps = false -> results_of (particles_positions ps) = molecule_positions (beads_of ps).
Proof.
  intros H. unfold particles_positions, molecule_positions. rewrite H.
  assert (E : existsb bead_key_error (beads_of ps) = false).
  { induction ps as [|p ps IH]; [reflexivity|]. cbn [existsb] in H. apply orb_false_elim in H as [H1 H2].
    destruct p as [b|]; cbn [beads_of flat_map app existsb]; [|exact (IH H2)].
    change (flat_map _ ps) with (beads_of ps). cbn [particle_key_error] in H1. rewrite H1. exact (IH H2). }
  rewrite E. clear H E. induction ps as [|p ps IH]; [reflexivity|].
  destruct p as [b|]; cbn [map results_of beads_of flat_map app]; [f_equal|]; exact IH.
Qed.

(* ---------- the position does not depend on the overall scale of the weights (they need not be normalised):
              multiplying every weight by a factor of magnitude at least one (so that the sum stays away from zero) ---------- *)

Definition scale_w (c : Q) (l : list T) : list T := map (fun t => (c * fst t, snd t)) l.

Lemma sums_scale c l :
  sw (scale_w c l) == c * sw l /\ swx (scale_w c l) == c * swx l /\
  swy (scale_w c l) == c * swy l /\ swz (scale_w c l) == c * swz l.
Proof.
  induction l as [|[w [[x y] z]] r (I0 & I1 & I2 & I3)]; cbn.
  - repeat split; ring.
  - fold (scale_w c r). rewrite I0, I1, I2, I3. repeat split; ring.
Qed.

Lemma scale_free_lemma c l p : 1 <= Qabs c -> mean l = RPos p ->
  exists p', mean (scale_w c l) = RPos p' /\ peq p' p.
Proof.
  unfold mean. destruct (sums_scale c l) as (S0 & S1 & S2 & S3). intros Hc.
  destruct (Qlt_le_dec (Qabs (sw l)) eps) as [|Hge]; [discriminate|]. intros [= <-].
  assert (Hne : ~ sw l == 0).
  { intros E. rewrite E in Hge. cbn in Hge. unfold eps, Qle in Hge. cbn in Hge. lia. }
  assert (Hcne : ~ c == 0).
  { intros E. rewrite E in Hc. cbn in Hc. unfold Qle in Hc. cbn in Hc. lia. }
  destruct (Qlt_le_dec (Qabs (sw (scale_w c l))) eps) as [Hlt|_].
  - exfalso. rewrite S0, Qabs_Qmult in Hlt. pose proof (Qabs_nonneg (sw l)) as Hn.
    assert (Qabs (sw l) <= Qabs c * Qabs (sw l)) by nra. 
    apply (Qlt_not_le _ _ Hlt). eapply Qle_trans; eassumption.
  - eexists. split; [reflexivity|]. unfold peq; cbn. rewrite S0, S1, S2, S3. repeat split; field; auto.
Qed.
