(* C09 — case type and the two boolean functions evaluated on generated cases. *)
From Coq Require Import List Bool ZArith QArith Qabs.
From V Require Import C09.Model C09.Proofs.
Import ListNotations.
Open Scope Q_scope.

Inductive iresult := IPos (x y z : Q) | INaN | IKeyError | IMissing.   (* doubles as exact rationals; IMissing: no position attribute *)

(* |a - b| <= 1e-9 * max(1, |a|) *)
Definition close (a b : Q) : bool :=
  Qle_bool (Qabs (a - b)) ((1 # 1000000000) * (if Qle_bool 1 (Qabs a) then Qabs a else 1)).

Definition res_close (m : result) (i : iresult) : bool :=
  match m, i with
  | RPos (x, y, z), IPos a b c => close x a && close y b && close z c
  | RNaN, INaN | RKeyError, IKeyError => true
  | _, _ => false
  end.

Inductive case :=
| CSys (mols : list (list (particle * option (Q * Q * Q) * iresult)))   (* one processor instance over several molecules; (particle, position it had before, result) *)
| CMotion (f : affine) (b : bead) (before after : iresult).     (* the same bead before and after an affine map of the input *)

Definition corr (k : case) : bool :=
  match k with
  | CSys ms => forallb (fun l => forallb (fun ri =>
                     match fst ri, snd ri with
                     | PRes r, (_, i) => res_close r i
                     | PUntouched, (None, IMissing) => true
                     | PUntouched, (Some (x, y, z), IPos a b c) => Qeq_bool x a && Qeq_bool y b && Qeq_bool z c
                     | PUntouched, _ => false
                     end)
                   (combine (particles_positions (map (fun t => fst (fst t)) l)) (map (fun t => (snd (fst t), snd t)) l))) ms
  | CMotion f b before after =>
      res_close (bead_position b) before
      && res_close (bead_position {| b_graph := map (fun c => {| c_key := c_key c; c_pos := option_map (app_affine f) (c_pos c);
                                                                c_cw := c_cw c |}) (b_graph b);
                                     b_mw := b_mw b; b_use_cw := b_use_cw b |}) after
  end.

(* the property evaluated on the implementation's numbers *)
Definition min_list (l : list Q) (d : Q) : Q := fold_left (fun a x => if Qle_bool x a then x else a) l d.
Definition max_list (l : list Q) (d : Q) : Q := fold_left (fun a x => if Qle_bool a x then x else a) l d.
Definition slack : Q := 1 # 1000000.

Definition in_box (l : list Q) (v : Q) : bool :=
  match l with
  | [] => true
  | x :: r => Qle_bool (min_list r x - slack * (1 + Qabs (min_list r x))) v
              && Qle_bool v (max_list r x + slack * (1 + Qabs (max_list r x)))
  end.

Definition bead_ok (b : bead) (i : iresult) : bool :=
  let l := terms b in
  if b_use_cw b && existsb (fun c => match c_cw c with None => true | Some _ => false end) (b_graph b)
  then match i with IKeyError => true | _ => false end
  else
    match i with
    | INaN => Qle_bool (Qabs (sw l)) (eps * (1 + (1 # 1000)))             (* NaN only when the weights sum to ~0 *)
    | IKeyError => false
    | IMissing => false          (* a particle with constituents must get a position *)
    | IPos x y z =>
        Qle_bool (eps * (1 - (1 # 1000))) (Qabs (sw l))
        && close (swx l / sw l) x && close (swy l / sw l) y && close (swz l / sw l) z
        && (negb (forallb (fun t => Qle_bool 0 (fst t)) l)
            || (in_box (xs l) x && in_box (ys l) y && in_box (zs l) z))
    end.

Definition prop (k : case) : bool :=
  match k with
  | CSys ms => forallb (fun l =>
                 if existsb particle_key_error (map (fun t => fst (fst t)) l)
                 then forallb (fun t => match snd t with IKeyError => true | _ => false end) l
                 else forallb (fun t => match fst (fst t) with
                                        | PBead b => bead_ok b (snd t)       (* whatever surrounds it in the molecule *)
                                        | PNoGraph => true
                                        end) l) ms
  | CMotion f b before after =>
      match before, after with
      | IPos x y z, IPos a b' c =>
          let '(u, v, w) := app_affine f (x, y, z) in
          (* both are doubles: compare within 1e-7 of the scale of the coordinates *)
          Qle_bool (Qabs (u - a) + Qabs (v - b') + Qabs (w - c))
                   ((1 # 10000000) * (1 + Qabs u + Qabs v + Qabs w))
      | INaN, INaN | IKeyError, IKeyError => true
      | _, _ => false
      end
  end.
