(* C09 — property theorems only. *)
From Coq Require Import List Bool ZArith QArith Qabs Permutation.
From V Require Import C09.Model C09.Proofs.
Import ListNotations.
Open Scope Q_scope.

(* The position is the weighted mean Σ w p / Σ w of the POSITIONED constituents, each with
   its own weight mapping_weight × centre weight: this is [mean (terms b)] by definition of
   the model; the theorems below are the consequences the property names. *)

(* inside the bounding box of the constituents when the weights are non-negative *)
Theorem in_bounding_box : forall l lox hix loy hiy loz hiz x y z,
  Forall (fun t => 0 <= fst t) l ->
  Forall (fun v => lox <= v /\ v <= hix) (xs l) ->
  Forall (fun v => loy <= v /\ v <= hiy) (ys l) ->
  Forall (fun v => loz <= v /\ v <= hiz) (zs l) ->
  mean l = RPos (x, y, z) ->
  (lox <= x /\ x <= hix) /\ (loy <= y /\ y <= hiy) /\ (loz <= z /\ z <= hiz).
Proof. exact in_bounding_box_lemma. Qed.
Print Assumptions in_bounding_box.

(* follows every affine map of the input exactly — in particular every rigid motion *)
Theorem affine_equivariant : forall f l p,
  mean l = RPos p -> exists p', mean (map_pos f l) = RPos p' /\ peq p' (app_affine f p).
Proof. exact affine_equivariant_lemma. Qed.
Print Assumptions affine_equivariant.

(* constituents without coordinates never contribute *)
Theorem missing_never_contribute : forall b,
  terms b = terms {| b_graph := filter has_pos (b_graph b); b_mw := b_mw b; b_use_cw := b_use_cw b |}.
Proof. exact terms_filter. Qed.
Print Assumptions missing_never_contribute.

(* undefined exactly when the weights of the positioned constituents sum to (almost) zero:
   |Σw| < 1e-7 is the tolerance of the code *)
Theorem nan_iff_small_sum : forall l, mean l = RNaN <-> Qabs (sw l) < eps.
Proof. exact nan_iff_lemma. Qed.
Print Assumptions nan_iff_small_sum.

(* each weight stays with its atom: reordering the constituents does not change the result *)
Theorem weight_pairing : forall l l', Permutation l l' -> req (mean l) (mean l').
Proof. exact mean_perm. Qed.
Print Assumptions weight_pairing.

(* the weights need not be normalised: a common factor (of magnitude at least one, so that the sum stays clear of the
   zero threshold) changes nothing *)
Theorem weights_need_not_be_normalised : forall c l p, (1 <= Qabs c)%Q -> mean l = RPos p ->
  exists p', mean (scale_w c l) = RPos p' /\ peq p' p.
Proof. exact scale_free_lemma. Qed.
Print Assumptions weights_need_not_be_normalised.

(* particles that represent no atoms (virtual sites) are left alone and change nothing for the others: the particles
   with constituents get exactly the positions they would get without them *)
Theorem graphless_particles_do_not_disturb : forall ps,
  existsb particle_key_error ps = false -> results_of (particles_positions ps) = molecule_positions (beads_of ps).
Proof. exact graphless_transparent. Qed.
Print Assumptions graphless_particles_do_not_disturb.

(* non-vacuity: unequal weights, a zero weight, a missing position whose weight would
   otherwise shift the result, centre weights; and pairing is not vacuous: swapping the
   weights alone changes the result *)
Example nonvacuous :
  let C := fun k p w => {| c_key := k; c_pos := p; c_cw := Some w |} in
  let b := {| b_graph := [C 1%Z (Some (0, 0, 0)) 12; C 2%Z None 1; C 3%Z (Some (3, 6, 9)) 1; C 4%Z (Some (100, 100, 100)) 5];
              b_mw := [(1%Z, 1 # 4); (2%Z, 7); (4%Z, 0)]; b_use_cw := true |} in
  req (bead_position b) (RPos (3 / 4, 6 / 4, 9 / 4)) /\
  req (mean [(3, (0, 0, 0)); (1, (3, 6, 9))]) (RPos (3 / 4, 6 / 4, 9 / 4)) /\
  req (mean [(1, (0, 0, 0)); (3, (3, 6, 9))]) (RPos (9 / 4, 18 / 4, 27 / 4)) /\
  bead_position {| b_graph := [C 1%Z (Some (1, 1, 1)) 1; C 2%Z (Some (2, 2, 2)) 1]; b_mw := [(1%Z, 1); (2%Z, -1)]; b_use_cw := false |} = RNaN.
Proof. vm_compute. repeat split. Qed.
