(* C09 — exact-arithmetic model of vermouth/processors/average_beads.py:do_average_bead
   (l.24-105) and DoAverageBead.run_molecule (centre weight from force_field.variables).
   Positions and weights are rationals (every double is one); the implementation's floating
   point result is compared with the exact value within a stated band, not proved. *)
From Coq Require Import List Bool ZArith QArith Qabs.
Import ListNotations.
Open Scope Q_scope.

Record cons := { c_key : Z; c_pos : option (Q * Q * Q); c_cw : option Q }.   (* c_cw: value of the centre-weight attribute *)
Record bead := { b_graph : list cons; b_mw : list (Z * Q); b_use_cw : bool }.

Fixpoint mw_get (l : list (Z * Q)) (k : Z) : Q :=
  match l with [] => 1 | (j, w) :: r => if Z.eqb j k then w else mw_get r k end.

(* mapping_weights.get(key, 1) * subnode.get(weight, 1) *)
Definition wt (b : bead) (c : cons) : Q :=
  mw_get (b_mw b) (c_key c) * (if b_use_cw b then match c_cw c with Some q => q | None => 1 end else 1).

Definition has_pos (c : cons) : bool := match c_pos c with Some _ => true | None => false end.

(* the (weight, position) pairs that enter the average: constituents WITH a position, each
   paired with its own weight *)
Definition terms (b : bead) : list (Q * (Q * Q * Q)) :=
  flat_map (fun c => match c_pos c with Some p => [(wt b c, p)] | None => [] end) (b_graph b).

Fixpoint sw (l : list (Q * (Q * Q * Q))) : Q := match l with [] => 0 | (w, _) :: r => w + sw r end.
Fixpoint swx (l : list (Q * (Q * Q * Q))) : Q := match l with [] => 0 | (w, (x, _, _)) :: r => w * x + swx r end.
Fixpoint swy (l : list (Q * (Q * Q * Q))) : Q := match l with [] => 0 | (w, (_, y, _)) :: r => w * y + swy r end.
Fixpoint swz (l : list (Q * (Q * Q * Q))) : Q := match l with [] => 0 | (w, (_, _, z)) :: r => w * z + swz r end.

Inductive result := RPos (p : Q * Q * Q) | RNaN | RKeyError.

Definition eps : Q := 1 # 10000000.

Definition mean (l : list (Q * (Q * Q * Q))) : result :=
  if Qlt_le_dec (Qabs (sw l)) eps then RNaN
  else RPos (swx l / sw l, swy l / sw l, swz l / sw l).

Definition bead_position (b : bead) : result :=
  if b_use_cw b && existsb (fun c => match c_cw c with None => true | Some _ => false end) (b_graph b)
  then RKeyError                       (* 'Not all underlying atoms have an attribute ...' *)
  else mean (terms b).

(* do_average_bead checks the centre-weight attribute for the WHOLE molecule before computing
   anything (l.66-77): one constituent without it fails every particle of the molecule *)
Definition bead_key_error (b : bead) : bool :=
  b_use_cw b && existsb (fun c => match c_cw c with None => true | Some _ => false end) (b_graph b).
Definition molecule_positions (bs : list bead) : list result :=
  if existsb bead_key_error bs then map (fun _ => RKeyError) bs else map (fun b => mean (terms b)) bs.

(* Particles that represent no atoms (no 'graph' attribute: virtual sites and the like). The processor runs with
   ignore_missing_graphs=True: such a particle is left alone — whatever position it had stays — and it does not disturb
   the others (l.66-97: the centre-weight check and the averaging loop both skip it). *)
Inductive particle := PBead (b : bead) | PNoGraph.
Inductive presult := PRes (r : result) | PUntouched.

Definition particle_key_error (p : particle) : bool := match p with PBead b => bead_key_error b | PNoGraph => false end.
Definition particles_positions (ps : list particle) : list presult :=
  if existsb particle_key_error ps then map (fun _ => PRes RKeyError) ps
  else map (fun p => match p with PBead b => PRes (mean (terms b)) | PNoGraph => PUntouched end) ps.

Definition beads_of (ps : list particle) : list bead := flat_map (fun p => match p with PBead b => [b] | PNoGraph => [] end) ps.
Definition results_of (rs : list presult) : list result := flat_map (fun r => match r with PRes x => [x] | PUntouched => [] end) rs.
