(* C03 — case type and the two boolean functions evaluated on generated cases. *)
From Coq Require Import List Bool ZArith String.
From V Require Import Base.Sort C03.Model.
Import ListNotations.

Fixpoint list_eqb {A} (f : A -> A -> bool) (a b : list A) : bool :=
  match a, b with [], [] => true | x :: r, y :: s => f x y && list_eqb f r s | _, _ => false end.

Definition ident_eqb (a b : string * string * Z) : bool :=
  String.eqb (fst (fst a)) (fst (fst b)) && String.eqb (snd (fst a)) (snd (fst b)) && Z.eqb (snd a) (snd b).

(* what the harness read from the files the implementation wrote *)
Inductive case :=
| CSys (dedup : bool) (ms : list mol)
       (impl_names : list nat)                              (* index in molecule_<i>, per molecule *)
       (impl_molecules : list (nat * nat))                  (* [ molecules ] lines: name index, count *)
       (impl_includes : list nat)                           (* #include "molecule_<i>.itp" lines *)
       (impl_pdb : list (list (string * string * Z)))       (* per molecule (TER division): atom name, resname, resid *)
       (impl_itps : list (nat * list (string * string * Z))).   (* per written ITP file: its [ atoms ] *)

Definition pair_eqb (a b : nat * nat) : bool := Nat.eqb (fst a) (fst b) && Nat.eqb (snd a) (snd b).

Fixpoint itp_of (n : nat) (l : list (nat * list (string * string * Z))) : option (list (string * string * Z)) :=
  match l with [] => None | (k, a) :: r => if Nat.eqb k n then Some a else itp_of n r end.

Definition corr (k : case) : bool :=
  match k with
  | CSys dedup ms names mols incs pdb itps =>
      let mnames := moltype_names dedup ms in
      list_eqb Nat.eqb mnames names
      && list_eqb pair_eqb (group_counts mnames) mols
      && list_eqb Nat.eqb (includes mnames) incs
      && list_eqb (list_eqb ident_eqb) (map pdb_records ms) pdb
      && forallb (fun n => match first_with_name mnames ms n, itp_of n itps with
                           | Some f, Some a => list_eqb ident_eqb (map fst (itp_atoms f)) a
                           | _, _ => false end) (includes mnames)
  end.

Fixpoint expand_counts (g : list (nat * nat)) : list nat :=
  match g with [] => [] | (k, c) :: r => repeat k c ++ expand_counts r end.
Fixpoint nodupb (l : list nat) : bool :=
  match l with [] => true | x :: r => negb (existsb (Nat.eqb x) r) && nodupb r end.

(* the property on the files themselves, independent of the model:
   k-th coordinate record of every molecule = k-th atom of the ITP of its name;
   [ molecules ] expands to the names in coordinate order; every name included exactly once *)
Definition prop (k : case) : bool :=
  match k with
  | CSys dedup ms names mols incs pdb itps =>
      Nat.eqb (List.length names) (List.length pdb)
      && forallb (fun np => match itp_of (fst np) itps with
                            | Some a => list_eqb ident_eqb (snd np) a
                            | None => false end) (combine names pdb)
      && list_eqb Nat.eqb (expand_counts mols) names
      && nodupb incs
      && forallb (fun n => existsb (Nat.eqb n) incs) names
      && forallb (fun n => existsb (Nat.eqb n) names) incs
      (* two molecules with one name: what would be written for either is the same — the number of exclusions, the atom
         lines in written order with every written attribute, the interactions *)
      && forallb (fun p => forallb (fun q =>
             if Nat.eqb (fst p) (fst q)
             then Z.eqb (m_nrexcl (snd p)) (m_nrexcl (snd q))
                  && list_eqb (fun a b => ident_eqb (fst a) (fst b) && Z.eqb (snd a) (snd b)) (itp_atoms (snd p)) (itp_atoms (snd q))
                  && Z.eqb (m_inter (snd p)) (m_inter (snd q))
             else true) (combine names ms)) (combine names ms)
  end.
