(* C03 — model of how coordinates, molecule types and the system topology are tied together:
   Molecule.share_moltype_with (molecule.py l.757-783, same_nodes/same_edges/same_interactions),
   NameMolType (processors/name_moltype.py), the [ molecules ] / #include part of
   write_gmx_topology (gmx/topology.py l.163-262), and the record order of write_pdb_string and
   write_molecule_itp (both iterate Molecule.sorted_nodes).
   Attributes are reduced to what the property talks about: atomid (sort key), atom name,
   residue name, residue number, one tag standing for every other attribute that enters the
   comparison and the ITP, and one tag for the attributes share_moltype_with ignores
   (position, chain, ...). Interactions are one tag per molecule (equal tags <=> equal lists). *)
From Coq Require Import List Bool ZArith String.
From V Require Import Base.Sort.
Import ListNotations.
Open Scope Z_scope.

Record node := {
  n_key : Z; n_atomid : option Z; n_name : string; n_resname : string; n_resid : Z;
  n_other : Z;      (* atype, charge, charge_group, mass, ... *)
  n_ignored : Z }.  (* position, chain, graph, mapping_weights *)

Record mol := { m_nrexcl : Z; m_nodes : list node; m_edges : list (Z * Z); m_inter : Z }.

Definition opt_eqbZ (a b : option Z) : bool :=
  match a, b with Some x, Some y => Z.eqb x y | None, None => true | _, _ => false end.

(* same_nodes with ignore_attr: same keys in the same order, same compared attributes *)
Definition node_sameb (a b : node) : bool :=
  Z.eqb (n_key a) (n_key b) && opt_eqbZ (n_atomid a) (n_atomid b) && String.eqb (n_name a) (n_name b)
  && String.eqb (n_resname a) (n_resname b) && Z.eqb (n_resid a) (n_resid b) && Z.eqb (n_other a) (n_other b).

Fixpoint forall2b {A} (f : A -> A -> bool) (a b : list A) : bool :=
  match a, b with [], [] => true | x :: r, y :: s => f x y && forall2b f r s | _, _ => false end.

Definition edge_in (e : Z * Z) (l : list (Z * Z)) : bool :=
  existsb (fun f => (Z.eqb (fst e) (fst f) && Z.eqb (snd e) (snd f)) || (Z.eqb (fst e) (snd f) && Z.eqb (snd e) (fst f))) l.
Definition edges_sameb (a b : list (Z * Z)) : bool :=
  forallb (fun e => edge_in e b) a && forallb (fun e => edge_in e a) b.

Definition share_moltype (a b : mol) : bool :=
  Z.eqb (m_nrexcl a) (m_nrexcl b) && forall2b node_sameb (m_nodes a) (m_nodes b)
  && edges_sameb (m_edges a) (m_edges b) && Z.eqb (m_inter a) (m_inter b).

(* NameMolType._name_with_deduplication: index of the first representative sharing the
   molecule's topology, else a new representative; names are molname_<index> *)
Fixpoint find_rep (m : mol) (reps : list mol) (i : nat) : option nat :=
  match reps with
  | [] => None
  | r :: rest => if share_moltype m r then Some i else find_rep m rest (S i)
  end.

Fixpoint name_dedup (ms : list mol) (reps : list mol) : list nat :=
  match ms with
  | [] => []
  | m :: r =>
      match find_rep m reps 0 with
      | Some i => i :: name_dedup r reps
      | None => List.length reps :: name_dedup r (reps ++ [m])
      end
  end.

Definition moltype_names (dedup : bool) (ms : list mol) : list nat :=
  if dedup then match ms with [] => [] | m0 :: _ => name_dedup ms [m0] end
  else seq 0 (List.length ms).

(* write_gmx_topology: groups of successive equal names with their counts; the ITP of a name
   is written from the first molecule bearing it; each name is included once, first-seen order *)
Fixpoint group_counts (names : list nat) : list (nat * nat) :=
  match names with
  | [] => []
  | n :: r =>
      match group_counts r with
      | (k, c) :: rest => if Nat.eqb n k then (k, S c) :: rest else (n, 1%nat) :: (k, c) :: rest
      | [] => [(n, 1%nat)]
      end
  end.

Fixpoint dedup_first (l : list nat) (seen : list nat) : list nat :=
  match l with
  | [] => []
  | x :: r => if existsb (Nat.eqb x) seen then dedup_first r seen else x :: dedup_first r (x :: seen)
  end.

Definition includes (names : list nat) : list nat := dedup_first (map fst (group_counts names)) [].

Fixpoint first_with_name (names : list nat) (ms : list mol) (n : nat) : option mol :=
  match names, ms with
  | k :: r, m :: s => if Nat.eqb k n then Some m else first_with_name r s n
  | _, _ => None
  end.

(* record order of both writers *)
Definition atomid_leb (a b : node) : bool :=
  match n_atomid a, n_atomid b with
  | Some x, Some y => x <=? y | Some _, None => true | None, Some _ => false | None, None => true end.
Definition sorted_nodes (m : mol) : list node := sort atomid_leb (m_nodes m).

Definition ident (a : node) : string * string * Z := (n_name a, n_resname a, n_resid a).
(* what the k-th coordinate record of m says, and what the k-th [ atoms ] line of an ITP written from r says *)
Definition pdb_records (m : mol) : list (string * string * Z) := map ident (sorted_nodes m).
Definition itp_atoms (r : mol) : list (string * string * Z * Z) := map (fun a => (ident a, n_other a)) (sorted_nodes r).
