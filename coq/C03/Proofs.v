From Coq Require Import List Bool ZArith String Lia.
From V Require Import Base.Sort C03.Model.
Import ListNotations.
Open Scope Z_scope.

(* ---------- share_moltype is an equivalence on what gets written ---------- *)
Definition written (a : node) : Z * option Z * string * string * Z * Z :=
  (n_key a, n_atomid a, n_name a, n_resname a, n_resid a, n_other a).

Lemma opt_eqbZ_eq a b : opt_eqbZ a b = true -> a = b.
Proof. destruct a, b; cbn; try discriminate; [|reflexivity]. intros H. apply Z.eqb_eq in H. congruence. Qed.

Lemma node_sameb_written a b : node_sameb a b = true <-> written a = written b.
Proof.
  unfold node_sameb, written. split.
  - intros H. repeat match goal with H : _ && _ = true |- _ => apply andb_prop in H as [H ?] end.
    repeat match goal with H : Z.eqb _ _ = true |- _ => apply Z.eqb_eq in H end.
    repeat match goal with H : String.eqb _ _ = true |- _ => apply String.eqb_eq in H end.
    match goal with H : opt_eqbZ _ _ = true |- _ => apply opt_eqbZ_eq in H end. congruence.
  - intros H. injection H as H1 H2 H3 H4 H5 H6. rewrite H1, H2, H3, H4, H5, H6.
    rewrite !Z.eqb_refl, !String.eqb_refl.
    destruct (n_atomid b); cbn; rewrite ?Z.eqb_refl; reflexivity.
Qed.

Lemma forall2b_written l1 : forall l2,
  forall2b node_sameb l1 l2 = true <-> map written l1 = map written l2.
Proof.
  induction l1 as [|a l1 IH]; intros [|b l2]; cbn; try (split; [discriminate|discriminate]); [tauto|].
  rewrite andb_true_iff, node_sameb_written, IH. split; [intros [H1 H2]; rewrite H1, H2; reflexivity|intros H; split; [exact (f_equal (@hd _ (written a)) H)|exact (f_equal (@tl _) H)]].
Qed.

Lemma cons_written_inv a b (l l' : list (Z * option Z * string * string * Z * Z)) :
  written a :: l = written b :: l' -> written a = written b /\ l = l'.
Proof. intros H. split; [exact (f_equal (@hd _ (written a)) H)|exact (f_equal (@tl _) H)]. Qed.

(* sorting by atomid commutes with forgetting the ignored attributes *)
Lemma atomid_leb_written a b a' b' :
  written a = written a' -> written b = written b' -> atomid_leb a b = atomid_leb a' b'.
Proof. unfold written, atomid_leb. intros [= _ -> _ _ _ _] [= _ -> _ _ _ _]. reflexivity. Qed.

Lemma insert_written a a' : written a = written a' -> forall l l',
  map written l = map written l' ->
  map written (insert atomid_leb a l) = map written (insert atomid_leb a' l').
Proof.
  intros Ha. induction l as [|b l IH]; intros [|b' l'] H; cbn in *; try discriminate; [congruence|].
  apply cons_written_inv in H as [Hb Hl]. rewrite (atomid_leb_written a b a' b' Ha Hb).
  destruct (atomid_leb a' b'); cbn; [congruence|]. rewrite Hb. f_equal. apply IH. exact Hl.
Qed.

Lemma sort_written l : forall l', map written l = map written l' ->
  map written (sort atomid_leb l) = map written (sort atomid_leb l').
Proof.
  induction l as [|a l IH]; intros [|a' l'] H; cbn in *; try discriminate; [reflexivity|].
  apply cons_written_inv in H as [Ha Hl]. apply insert_written; [exact Ha|apply IH; exact Hl].
Qed.

Lemma share_same_written_lemma a b : share_moltype a b = true ->
  map written (sorted_nodes a) = map written (sorted_nodes b) /\
  m_nrexcl a = m_nrexcl b /\ m_inter a = m_inter b /\ edges_sameb (m_edges a) (m_edges b) = true.
Proof.
  unfold share_moltype. intros H. apply andb_prop in H as [H Hi]. apply andb_prop in H as [H He].
  apply andb_prop in H as [Hn Hnodes]. apply Z.eqb_eq in Hn, Hi. apply forall2b_written in Hnodes.
  split; [apply sort_written; exact Hnodes|auto].
Qed.

Lemma written_records a b : map written (sorted_nodes a) = map written (sorted_nodes b) ->
  pdb_records a = pdb_records b /\ itp_atoms a = itp_atoms b.
Proof.
  unfold pdb_records, itp_atoms, ident. intros H.
  assert (G : forall (T : Type) (f : Z * option Z * string * string * Z * Z -> T),
             map (fun n => f (written n)) (sorted_nodes a) = map (fun n => f (written n)) (sorted_nodes b)).
  { intros T f. rewrite <- !(map_map written f). rewrite H. reflexivity. }
  split.
  - exact (G _ (fun w => match w with (_, _, nm, rn, ri, _) => (nm, rn, ri) end)).
  - exact (G _ (fun w => match w with (_, _, nm, rn, ri, o) => (nm, rn, ri, o) end)).
Qed.

Lemma edge_in_refl e l : In e l -> edge_in e l = true.
Proof.
  intros H. unfold edge_in. apply existsb_exists. exists e. split; [exact H|]. rewrite !Z.eqb_refl. reflexivity.
Qed.

Lemma share_refl a : share_moltype a a = true.
Proof.
  unfold share_moltype. rewrite !Z.eqb_refl. cbn.
  assert (forall2b node_sameb (m_nodes a) (m_nodes a) = true) as -> by (apply forall2b_written; reflexivity).
  unfold edges_sameb. assert (forallb (fun e => edge_in e (m_edges a)) (m_edges a) = true) as ->.
  { apply forallb_forall. intros e He. apply edge_in_refl; exact He. }
  reflexivity.
Qed.

(* ---------- NameMolType with deduplication ---------- *)
Fixpoint reps_final (ms : list mol) (reps : list mol) : list mol :=
  match ms with
  | [] => reps
  | m :: r => match find_rep m reps 0 with Some _ => reps_final r reps | None => reps_final r (reps ++ [m]) end
  end.

Lemma find_rep_some m reps : forall i j, find_rep m reps i = Some j ->
  (i <= j)%nat /\ exists r, nth_error reps (j - i) = Some r /\ share_moltype m r = true.
Proof.
  induction reps as [|r reps IH]; intros i j; cbn; [discriminate|].
  destruct (share_moltype m r) eqn:E.
  - intros [= <-]. split; [lia|]. rewrite Nat.sub_diag. exists r. split; [reflexivity|exact E].
  - intros H. destruct (IH _ _ H) as (Hle & r' & Hn & Hs). split; [lia|].
    exists r'. replace (j - i)%nat with (S (j - S i)) by lia. auto.
Qed.

Lemma reps_final_prefix ms : forall reps, exists ext, reps_final ms reps = reps ++ ext.
Proof.
  induction ms as [|m ms IH]; intros reps; cbn; [exists []; rewrite app_nil_r; reflexivity|].
  destruct (find_rep m reps 0); [apply IH|].
  destruct (IH (reps ++ [m])) as [ext E]. exists ([m] ++ ext). rewrite E, <- app_assoc. reflexivity.
Qed.

Lemma name_dedup_spec ms : forall reps,
  Forall2 (fun m i => exists r, nth_error (reps_final ms reps) i = Some r /\ share_moltype m r = true)
          ms (name_dedup ms reps).
Proof.
  induction ms as [|m ms IH]; intros reps; cbn [name_dedup reps_final]; [constructor|].
  destruct (find_rep m reps 0) as [i|] eqn:E.
  - constructor; [|apply IH]. destruct (find_rep_some _ _ _ _ E) as (_ & r & Hn & Hs). rewrite Nat.sub_0_r in Hn.
    exists r. split; [|exact Hs]. destruct (reps_final_prefix ms reps) as [ext ->].
    rewrite nth_error_app1; [exact Hn|]. apply nth_error_Some. congruence.
  - constructor; [|apply IH]. exists m. split; [|apply share_refl].
    destruct (reps_final_prefix ms (reps ++ [m])) as [ext ->]. rewrite <- app_assoc.
    rewrite nth_error_app2 by lia. rewrite Nat.sub_diag. reflexivity.
Qed.

(* share_moltype is symmetric and transitive *)
Lemma edge_in_sym_set e a b : edges_sameb a b = true -> edge_in e a = true -> edge_in e b = true.
Proof.
  unfold edges_sameb. intros H He. apply andb_prop in H as [H _]. rewrite forallb_forall in H.
  unfold edge_in in He. apply existsb_exists in He as (f & Hf & Hm). specialize (H f Hf).
  unfold edge_in in *. apply existsb_exists in H as (g & Hg & Hfg). apply existsb_exists. exists g. split; [exact Hg|].
  apply orb_prop in Hm as [Hm|Hm]; apply andb_prop in Hm as [H1 H2]; apply Z.eqb_eq in H1, H2;
    apply orb_prop in Hfg as [Hfg|Hfg]; apply andb_prop in Hfg as [H3 H4]; apply Z.eqb_eq in H3, H4;
    rewrite H1, H2, H3, H4, !Z.eqb_refl; cbn; rewrite ?orb_true_r; reflexivity.
Qed.

Lemma edges_sameb_sym a b : edges_sameb a b = true -> edges_sameb b a = true.
Proof. unfold edges_sameb. intros H. apply andb_prop in H as [H1 H2]. rewrite H1, H2. reflexivity. Qed.

Lemma edges_sameb_trans a b c : edges_sameb a b = true -> edges_sameb b c = true -> edges_sameb a c = true.
Proof.
  intros H1 H2. unfold edges_sameb. apply andb_true_intro. split; apply forallb_forall; intros e He.
  - apply (edge_in_sym_set e b c H2). apply (edge_in_sym_set e a b H1). apply edge_in_refl; exact He.
  - apply (edge_in_sym_set e b a (edges_sameb_sym _ _ H1)). apply (edge_in_sym_set e c b (edges_sameb_sym _ _ H2)).
    apply edge_in_refl; exact He.
Qed.

Lemma share_sym a b : share_moltype a b = true -> share_moltype b a = true.
Proof.
  unfold share_moltype. intros H. apply andb_prop in H as [H Hi]. apply andb_prop in H as [H He].
  apply andb_prop in H as [Hn Hnodes]. apply Z.eqb_eq in Hn, Hi. apply forall2b_written in Hnodes.
  rewrite Hn, Hi, !Z.eqb_refl. cbn. rewrite (proj2 (forall2b_written _ _) (eq_sym Hnodes)).
  rewrite (edges_sameb_sym _ _ He). reflexivity.
Qed.

Lemma share_trans a b c : share_moltype a b = true -> share_moltype b c = true -> share_moltype a c = true.
Proof.
  unfold share_moltype. intros H1 H2.
  apply andb_prop in H1 as [H1 Hi1]. apply andb_prop in H1 as [H1 He1]. apply andb_prop in H1 as [Hn1 Hnodes1].
  apply andb_prop in H2 as [H2 Hi2]. apply andb_prop in H2 as [H2 He2]. apply andb_prop in H2 as [Hn2 Hnodes2].
  apply Z.eqb_eq in Hn1, Hi1, Hn2, Hi2. apply forall2b_written in Hnodes1, Hnodes2.
  rewrite Hn1, Hn2, Hi1, Hi2, !Z.eqb_refl. cbn.
  rewrite (proj2 (forall2b_written _ _) (eq_trans Hnodes1 Hnodes2)), (edges_sameb_trans _ _ _ He1 He2). reflexivity.
Qed.

Lemma forall2_nth {A B} (R : A -> B -> Prop) l1 : forall l2 k a b,
  Forall2 R l1 l2 -> nth_error l1 k = Some a -> nth_error l2 k = Some b -> R a b.
Proof.
  induction l1 as [|x l1 IH]; intros l2 k a b H Ha Hb; inversion H; subst; destruct k; cbn in *; try discriminate.
  - congruence.
  - eapply IH; eauto.
Qed.

(* two molecules given the same name have the same topology *)
Lemma same_name_share_lemma dedup ms j k a b n :
  nth_error ms j = Some a -> nth_error ms k = Some b ->
  nth_error (moltype_names dedup ms) j = Some n -> nth_error (moltype_names dedup ms) k = Some n ->
  share_moltype a b = true.
Proof.
  unfold moltype_names. destruct dedup.
  - destruct ms as [|m0 ms']; [destruct j; discriminate|]. intros Ha Hb Hj Hk.
    pose proof (name_dedup_spec (m0 :: ms') [m0]) as S.
    destruct (forall2_nth _ _ _ _ _ _ S Ha Hj) as (r1 & E1 & S1).
    destruct (forall2_nth _ _ _ _ _ _ S Hb Hk) as (r2 & E2 & S2).
    assert (r1 = r2) by congruence. subst. eapply share_trans; [exact S1|apply share_sym; exact S2].
  - intros Ha Hb Hj Hk.
    assert (G : forall l s i x, nth_error (seq s l) i = Some x -> x = (s + i)%nat).
    { induction l as [|l IH]; intros s i x; destruct i; cbn; try discriminate; [intros [= <-]; lia|].
      intros H. apply IH in H. lia. }
    apply G in Hj, Hk. assert (j = k) by lia. subst. assert (a = b) by congruence. subst. apply share_refl.
Qed.

(* ---------- [ molecules ] and #include ---------- *)
Definition expand (g : list (nat * nat)) : list nat := flat_map (fun kc => repeat (fst kc) (snd kc)) g.

Lemma group_counts_expand names : expand (group_counts names) = names.
Proof.
  induction names as [|n r IH]; cbn [group_counts]; [reflexivity|].
  destruct (group_counts r) as [|[k c] rest] eqn:E.
  - cbn in IH. subst r. reflexivity.
  - destruct (Nat.eqb_spec n k) as [->|Hn]; unfold expand in *; cbn in *; rewrite <- IH; reflexivity.
Qed.

(* the grouping is the run-length encoding: every count is positive and neighbouring entries bear different names *)
Fixpoint compactb (g : list (nat * nat)) : bool :=
  match g with
  | [] => true
  | (k, c) :: r => Nat.ltb 0 c && match r with (k', _) :: _ => negb (Nat.eqb k k') | [] => true end && compactb r
  end.

Lemma group_counts_compact names : compactb (group_counts names) = true.
Proof.
  induction names as [|n r IH]; cbn [group_counts]; [reflexivity|].
  destruct (group_counts r) as [|[k c] rest] eqn:E; [reflexivity|].
  cbn [compactb] in IH. apply andb_prop in IH as [IH1 IH3]. apply andb_prop in IH1 as [IH1 IH2].
  destruct (Nat.eqb n k) eqn:Hn.
  - cbn [compactb]. rewrite IH2, IH3. reflexivity.
  - cbn [compactb]. rewrite Hn, IH1, IH2, IH3. reflexivity.
Qed.

(* ... and the only one: a compact list of entries is recovered from its expansion, so any [ molecules ] section with
   positive counts, differing neighbours and the right expansion IS the one written *)
Definition head_differs (k : nat) (g : list (nat * nat)) : bool :=
  match g with (k', _) :: _ => negb (Nat.eqb k k') | [] => true end.

Lemma group_counts_run k c l : head_differs k (group_counts l) = true ->
  group_counts (repeat k (S c) ++ l) = (k, S c) :: group_counts l.
Proof.
  intros H. induction c as [|c IH].
  - cbn [repeat app group_counts]. destruct (group_counts l) as [|[k' c'] rest]; [reflexivity|].
    cbn in H. destruct (Nat.eqb k k'); [discriminate|reflexivity].
  - change (repeat k (S (S c)) ++ l) with (k :: (repeat k (S c) ++ l)). cbn [group_counts]. rewrite IH.
    rewrite Nat.eqb_refl. reflexivity.
Qed.

Lemma compact_unique g : compactb g = true -> group_counts (expand g) = g.
Proof.
  induction g as [|[k c] r IH]; [reflexivity|].
  cbn [compactb]. intros H. apply andb_prop in H as [H H3]. apply andb_prop in H as [H1 H2].
  specialize (IH H3). unfold expand in *. cbn [flat_map fst snd].
  destruct c as [|c]; [discriminate|].
  rewrite group_counts_run; [rewrite IH; reflexivity|].
  rewrite IH. exact H2.
Qed.

Lemma group_counts_in names n : In n (map fst (group_counts names)) <-> In n names.
Proof.
  rewrite <- (group_counts_expand names) at 2. unfold expand.
  assert (Hpos : Forall (fun kc => (0 < snd kc)%nat) (group_counts names)).
  { induction names as [|x r IH]; cbn [group_counts]; [constructor|].
    destruct (group_counts r) as [|[k c] rest]; [repeat constructor|].
    inversion IH; subst. destruct (Nat.eqb x k); constructor; cbn; try lia; auto. }
  induction (group_counts names) as [|[k c] rest IH]; cbn; [tauto|].
  inversion Hpos as [|? ? Hc Hr]; subst. cbn in Hc. rewrite in_app_iff, IH by exact Hr. split.
  - intros [->|H]; [left|right; exact H]. destruct c; [lia|]. left; reflexivity.
  - intros [H|H]; [left; apply repeat_spec in H; auto|right; exact H].
Qed.

Lemma dedup_first_spec l : forall seen,
  NoDup (dedup_first l seen) /\
  (forall x, In x (dedup_first l seen) <-> In x l /\ ~ In x seen).
Proof.
  induction l as [|y l IH]; intros seen; cbn [dedup_first].
  - split; [constructor|]. intros x; cbn; tauto.
  - destruct (existsb (Nat.eqb y) seen) eqn:E.
    + destruct (IH seen) as [H1 H2]. split; [exact H1|]. intros x. rewrite H2. cbn.
      apply existsb_exists in E as (z & Hz & Hyz). apply Nat.eqb_eq in Hyz. subst z.
      split; [tauto|]. intros [[->|H] Hn]; [contradiction|auto].
    + assert (Hy : ~ In y seen).
      { intros Hin. assert (existsb (Nat.eqb y) seen = true); [|congruence].
        apply existsb_exists. exists y. split; [exact Hin|apply Nat.eqb_refl]. }
      destruct (IH (y :: seen)) as [H1 H2]. split.
      * constructor; [|exact H1]. rewrite H2. cbn. tauto.
      * intros x. cbn. rewrite H2. cbn. split.
        -- intros [<-|[H3 H4]]; [auto|]. split; [auto|tauto].
        -- intros [[<-|H3] H4]; [auto|]. destruct (Nat.eq_dec y x); [auto|]. right. tauto.
Qed.

Lemma includes_once_lemma names :
  NoDup (includes names) /\ forall n, In n (includes names) <-> In n names.
Proof.
  unfold includes. destruct (dedup_first_spec (map fst (group_counts names)) []) as [H1 H2].
  split; [exact H1|]. intros n. rewrite H2, group_counts_in. cbn. tauto.
Qed.

Lemma first_with_name_spec names : forall ms n f,
  first_with_name names ms n = Some f ->
  exists j, nth_error ms j = Some f /\ nth_error names j = Some n.
Proof.
  induction names as [|k r IH]; intros [|m s] n f; cbn; try discriminate.
  destruct (Nat.eqb_spec k n) as [->|_].
  - intros [= <-]. exists 0%nat. auto.
  - intros H. destruct (IH _ _ _ H) as (j & H1 & H2). exists (S j). auto.
Qed.

Lemma first_with_name_exists names : forall ms n j,
  List.length names = List.length ms -> nth_error names j = Some n -> exists f, first_with_name names ms n = Some f.
Proof.
  induction names as [|k r IH]; intros [|m s] n j Hl Hj; cbn in *; try discriminate; [destruct j; discriminate|].
  destruct (Nat.eqb_spec k n) as [->|Hn]; [eauto|]. destruct j; cbn in Hj.
  - congruence.
  - eapply IH; eauto.
Qed.
