(* C03 — property theorems only. *)
From Coq Require Import List Bool ZArith String.
From V Require Import Base.Sort C03.Model C03.Proofs.
Import ListNotations.

(* Two molecules get the same molecule type name only if share_moltype_with holds between
   them (with or without deduplication), ... *)
Theorem same_name_same_topology : forall dedup ms j k a b n,
  nth_error ms j = Some a -> nth_error ms k = Some b ->
  nth_error (moltype_names dedup ms) j = Some n -> nth_error (moltype_names dedup ms) k = Some n ->
  share_moltype a b = true.
Proof. exact same_name_share_lemma. Qed.
Print Assumptions same_name_same_topology.

(* ... and then everything the ITP writer reads is identical: node keys, atom ids (hence the
   written order), names, residues and all other written attributes in written order, nrexcl,
   the interactions and the bonds — so the single ITP written for that name is valid for both. *)
Theorem shared_name_identical_itp : forall a b, share_moltype a b = true ->
  map written (sorted_nodes a) = map written (sorted_nodes b) /\
  m_nrexcl a = m_nrexcl b /\ m_inter a = m_inter b /\ edges_sameb (m_edges a) (m_edges b) = true.
Proof. exact share_same_written_lemma. Qed.
Print Assumptions shared_name_identical_itp.

(* The k-th coordinate record of every molecule is the k-th atom of the ITP written for its
   molecule type, i.e. of the FIRST molecule bearing that name. *)
Theorem coordinates_match_itp : forall dedup ms k m n f,
  nth_error ms k = Some m -> nth_error (moltype_names dedup ms) k = Some n ->
  first_with_name (moltype_names dedup ms) ms n = Some f ->
  pdb_records m = map fst (itp_atoms f).
Proof.
  intros dedup ms k m n f Hm Hn Hf.
  destruct (first_with_name_spec _ _ _ _ Hf) as (j & Hj1 & Hj2).
  pose proof (same_name_share_lemma dedup ms k j m f n Hm Hj1 Hn Hj2) as S.
  destruct (share_same_written_lemma _ _ S) as [W _]. destruct (written_records _ _ W) as [P I].
  rewrite P. unfold pdb_records, itp_atoms. rewrite map_map. reflexivity.
Qed.
Print Assumptions coordinates_match_itp.

(* The [ molecules ] section lists the molecule types in coordinate-file order with correct
   counts: expanding it gives back the sequence of names. *)
Theorem molecules_section_exact : forall names, expand (group_counts names) = names.
Proof. exact group_counts_expand. Qed.
Print Assumptions molecules_section_exact.

(* ... and it is the run-length encoding of that sequence: no empty entry, and successive molecules of one type are
   counted in one entry (neighbouring entries bear different names) *)
Theorem molecules_section_compact : forall names, compactb (group_counts names) = true.
Proof. exact group_counts_compact. Qed.
Print Assumptions molecules_section_compact.

(* ... and the only such list: whatever compact list of (name, count) entries expands to the sequence of names is the
   section that is written *)
Theorem molecules_section_unique : forall g names, compactb g = true -> expand g = names -> group_counts names = g.
Proof. intros g names H <-. apply compact_unique. exact H. Qed.
Print Assumptions molecules_section_unique.

(* Every molecule-type file is included exactly once. *)
Theorem includes_exactly_once : forall names,
  NoDup (includes names) /\ forall n, In n (includes names) <-> In n names.
Proof. exact includes_once_lemma. Qed.
Print Assumptions includes_exactly_once.

(* non-vacuity: identical chains interleaved with another molecule, node order != atomid order *)
Local Open Scope string_scope.
Example nonvacuous :
  let N := fun k id nm ign => {| n_key := k; n_atomid := id; n_name := nm; n_resname := "ALA"; n_resid := 1;
                                 n_other := 0; n_ignored := ign |} in
  let A := fun ign => {| m_nrexcl := 1; m_nodes := [N 5 (Some 2) "SC1" ign; N 2 (Some 1) "BB" ign]%Z;
                         m_edges := [(5, 2)]%Z; m_inter := 7 |}%Z in
  let B := {| m_nrexcl := 1; m_nodes := [N 0 None "W" 0]%Z; m_edges := []; m_inter := 0 |}%Z in
  let ms := [A 1; B; A 2; A 3]%Z in
  moltype_names true ms = [0; 1; 0; 0]%nat /\
  group_counts (moltype_names true ms) = [(0, 1); (1, 1); (0, 2)]%nat /\
  includes (moltype_names true ms) = [0; 1]%nat /\
  pdb_records (A 3%Z) = [("BB", "ALA", 1%Z); ("SC1", "ALA", 1%Z)]%string.
Proof. vm_compute. repeat split. Qed.
