(* C14 — property theorems only. *)
From Coq Require Import List Bool ZArith.
From V Require Import C01.Model C06.Model C06.Proofs C14.Model C14.Proofs C14.Groups.
Import ListNotations.
Open Scope Z_scope.

(* What the exact-cover search returns is a cover: placements of the offered modifications, taken in the offered
   order, each within the atoms still available and each covering something new ... *)
Theorem cover_is_sound : forall fuel np tc frags r, cover fuel np tc frags = Some r -> valid_cover np tc frags r.
Proof. exact cover_sound. Qed.
Print Assumptions cover_is_sound.

(* ... and it gives up (KeyError -> removal + warning) only when no such cover exists. *)
Theorem cover_is_complete : forall np tc frags r, valid_cover np tc frags r ->
  forall fuel, (List.length tc <= fuel)%nat -> cover fuel np tc frags <> None.
Proof. exact cover_complete. Qed.
Print Assumptions cover_is_complete.

(* every atom to be covered lies in a chosen placement *)
Theorem nothing_left_uncovered : forall np tc frags r, valid_cover np tc frags r ->
  forall x, In x tc -> exists id m, In (id, m) r /\ In x m.
Proof. exact valid_cover_covers. Qed.
Print Assumptions nothing_left_uncovered.

(* an unexplained atom lies in exactly one chosen placement: never covered twice *)
Theorem unexplained_atom_covered_once : forall np tc frags r, valid_cover np tc frags r ->
  forall x, In x tc -> ~ In x np -> count (fun im => zmem x (snd im)) r = 1%nat.
Proof. exact valid_cover_once. Qed.
Print Assumptions unexplained_atom_covered_once.

(* chosen placements are placements of offered modifications and use only recognised atoms and atoms to be covered *)
Theorem placements_are_offered_and_available : forall np tc frags r, valid_cover np tc frags r ->
  forall id m, In (id, m) r -> incl m (np ++ tc) /\ exists ms, In (id, ms) frags /\ In m ms.
Proof. exact valid_cover_within. Qed.
Print Assumptions placements_are_offered_and_available.

(* the placements offered for a modification are exactly its induced sub-graph isomorphisms into the residues, anchors
   matched by name and added atoms by element (C06's reference enumeration under that colouring) *)
Theorem offered_placements_exact : forall M G f,
  In f (placements_of M G) <-> (is_iso (mod_graph M) G f = true /\ map fst f = keys (mod_graph M)).
Proof. intros M G f. apply all_isos_spec. Qed.
Print Assumptions offered_placements_exact.

(* Groups of unexplained atoms (find_ptm_atoms): from one unexplained atom the flood returns only atoms chained to it
   through unexplained atoms, and as anchors only recognised atoms bonded to one of them ... *)
Theorem group_is_sound : forall es flagged fuel x, In x flagged ->
  let r := flood fuel es flagged [x] [] [] in
  (forall s, In s (fst r) -> chain es flagged x s) /\
  (forall a, In a (snd r) -> ~ In a flagged /\ exists s, In s (fst r) /\ In a (nbrs_of es s)).
Proof. exact flood_sound. Qed.
Print Assumptions group_is_sound.

(* ... and with the fuel of the model it returns all of them: every neighbour of a group atom is in the group or an anchor *)
Theorem group_is_complete : forall es flagged, NoDup flagged -> forall x, In x flagged ->
  let r := flood (S (2 * List.length es + List.length flagged)) es flagged [x] [] [] in
  forall s n, In s (fst r) -> In n (nbrs_of es s) -> In n (fst r) \/ In n (snd r).
Proof. exact flood_complete. Qed.
Print Assumptions group_is_complete.

(* non-vacuity: CA with a P-O group; modifications CA-P and CA-P-O: the larger one is chosen *)
Definition ex_atoms := [{| t_key := 0; t_name := 2; t_el := 6; t_resid := 1; t_ptm := false |};
                        {| t_key := 1; t_name := 9; t_el := 15; t_resid := 1; t_ptm := true |};
                        {| t_key := 2; t_name := 9; t_el := 8; t_resid := 1; t_ptm := true |}].
Definition ex_m1 := {| md_id := 1; md_nodes := [{| d_key := 0; d_name := 2; d_el := 6; d_ptm := false; d_newname := None |};
                                                {| d_key := 1; d_name := 4; d_el := 15; d_ptm := true; d_newname := None |}]; md_edges := [(0, 1)] |}.
Definition ex_m2 := {| md_id := 2; md_nodes := md_nodes ex_m1 ++ [{| d_key := 2; d_name := 5; d_el := 8; d_ptm := true; d_newname := None |}];
                       md_edges := [(0, 1); (1, 2)] |}.
Example ex_identify : identify [ex_m1; ex_m2] ex_atoms [(0, 1); (1, 2)] [([1; 2], [0])] = Some [(2, [0; 1; 2])].
Proof. vm_compute. reflexivity. Qed.
