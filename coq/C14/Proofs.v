From Coq Require Import List Bool ZArith Lia.
From V Require Import C01.Model C01.Proofs C06.Model C14.Model.
Import ListNotations.
Open Scope Z_scope.

Lemma subsetb_spec a b : subsetb a b = true <-> incl a b.
Proof. unfold subsetb. rewrite forallb_forall. split; intros H x Hx; [apply zmem_in; apply H; exact Hx|apply zmem_in; apply H; exact Hx]. Qed.

Lemma meets_spec a b : meets a b = true <-> exists x, In x a /\ In x b.
Proof. unfold meets. rewrite existsb_exists. split; intros (x & H1 & H2); exists x; (split; [exact H1|apply zmem_in; exact H2]). Qed.

Lemma minus_spec a b x : In x (minus a b) <-> In x a /\ ~ In x b.
Proof.
  unfold minus. rewrite filter_In, negb_true_iff. split; intros [H1 H2]; split; try assumption.
  - intros H. apply zmem_in in H. congruence.
  - destruct (zmem x b) eqn:E; [apply zmem_in in E; contradiction|reflexivity].
Qed.

(* covering something strictly shrinks what is left *)
Lemma minus_shrinks a b : meets b a = true -> (List.length (minus a b) < List.length a)%nat.
Proof.
  intros H. apply meets_spec in H as (x & Hb & Ha). unfold minus. induction a as [|y r IH]; [destruct Ha|]. cbn.
  assert (Hle : forall l, (List.length (filter (fun x => negb (zmem x b)) l) <= List.length l)%nat).
  { induction l as [|z l IHl]; cbn; [lia|]. destruct (negb (zmem z b)); cbn; lia. }
  destruct Ha as [->|Ha].
  - assert (X : zmem x b = true) by (apply zmem_in; exact Hb). rewrite X. cbn. specialize (Hle r). lia.
  - specialize (IH Ha). destruct (negb (zmem y b)); cbn; lia.
Qed.

(* ---------- soundness: what the search returns is a cover in the sense of valid_cover ---------- *)
Section Step.
Variable rec : list Z -> list frag -> option (list (Z * list Z)).
Variables (np tc : list Z).
Hypothesis tc_ne : tc <> [].
Hypothesis rec_sound : forall tc' fr r, rec tc' fr = Some r -> valid_cover np tc' fr r.

Lemma try_matches_sound id ms rest pre frags l r :
  frags = pre ++ (id, ms) :: rest -> incl l ms ->
  try_matches rec np tc id ((id, ms) :: rest) l = Some r -> valid_cover np tc frags r.
Proof.
  intros Hf. induction l as [|m l IH]; intros Hin H; cbn in H; [discriminate|].
  destruct (subsetb m (np ++ tc) && meets m tc) eqn:E.
  - destruct (rec (minus tc m) ((id, ms) :: rest)) as [r'|] eqn:Er.
    + injection H as <-. apply andb_true_iff in E as [E1 E2]. eapply vc_step; eauto. apply Hin. left. reflexivity.
    + apply IH; [|exact H]. intros x Hx. apply Hin. right. exact Hx.
  - apply IH; [|exact H]. intros x Hx. apply Hin. right. exact Hx.
Qed.

Lemma try_frags_cons id ms rest :
  try_frags rec np tc ((id, ms) :: rest) =
  match try_matches rec np tc id ((id, ms) :: rest) ms with Some r => Some r | None => try_frags rec np tc rest end.
Proof. reflexivity. Qed.

Lemma try_frags_sound frags : forall pre fr r, frags = pre ++ fr -> try_frags rec np tc fr = Some r -> valid_cover np tc frags r.
Proof.
  intros pre fr. revert pre. induction fr as [|[id ms] rest IH]; intros pre r Hf H; [discriminate|]. rewrite try_frags_cons in H.
  destruct (try_matches rec np tc id ((id, ms) :: rest) ms) as [r'|] eqn:E.
  - injection H as <-. eapply try_matches_sound; eauto. intros x Hx. exact Hx.
  - apply (IH (pre ++ [(id, ms)])); [rewrite <- app_assoc; exact Hf|exact H].
Qed.
End Step.

Theorem cover_sound fuel : forall np tc frags r, cover fuel np tc frags = Some r -> valid_cover np tc frags r.
Proof.
  induction fuel as [|f IH]; intros np tc frags r H; destruct tc as [|t tc']; cbn in H.
  - injection H as <-. constructor.
  - discriminate.
  - injection H as <-. constructor.
  - eapply (try_frags_sound (cover f np) np (t :: tc')); [discriminate|intros; apply IH; eassumption| |exact H]. instantiate (1 := []). reflexivity.
Qed.

(* ---------- completeness: if any cover of that shape exists the search does not give up ---------- *)
Section StepC.
Variable rec : list Z -> list frag -> option (list (Z * list Z)).
Variables (np tc : list Z).

Lemma try_frags_cons' id ms rest :
  try_frags rec np tc ((id, ms) :: rest) =
  match try_matches rec np tc id ((id, ms) :: rest) ms with Some r => Some r | None => try_frags rec np tc rest end.
Proof. reflexivity. Qed.

Lemma try_matches_complete id fr m l :
  In m l -> subsetb m (np ++ tc) = true -> meets m tc = true -> rec (minus tc m) fr <> None ->
  try_matches rec np tc id fr l <> None.
Proof.
  intros Hin H1 H2 H3. induction l as [|m' l IH]; [destruct Hin|]. cbn.
  destruct (subsetb m' (np ++ tc) && meets m' tc) eqn:E.
  - destruct (rec (minus tc m') fr) eqn:Er; [discriminate|]. destruct Hin as [->|Hin]; [contradiction|apply IH; exact Hin].
  - destruct Hin as [->|Hin]; [rewrite H1, H2 in E; discriminate|apply IH; exact Hin].
Qed.

Lemma try_frags_complete pre id ms rest m :
  In m ms -> subsetb m (np ++ tc) = true -> meets m tc = true -> rec (minus tc m) ((id, ms) :: rest) <> None ->
  try_frags rec np tc (pre ++ (id, ms) :: rest) <> None.
Proof.
  intros Hin H1 H2 H3. induction pre as [|[id' ms'] pre IH]; cbn [app]; rewrite try_frags_cons'.
  - pose proof (try_matches_complete id ((id, ms) :: rest) m ms Hin H1 H2 H3) as X.
    destruct (try_matches rec np tc id ((id, ms) :: rest) ms); [discriminate|contradiction].
  - destruct (try_matches rec np tc id' _ ms'); [discriminate|exact IH].
Qed.
End StepC.

Theorem cover_complete np : forall tc frags r, valid_cover np tc frags r ->
  forall fuel, (List.length tc <= fuel)%nat -> cover fuel np tc frags <> None.
Proof.
  induction 1 as [frags|tc frags pre id ms rest m r Hne Hf Hin H1 H2 Hv IH]; intros fuel Hfuel.
  - destruct fuel; cbn; discriminate.
  - destruct tc as [|t tc']; [contradiction|]. destruct fuel as [|f]; [cbn in Hfuel; lia|]. cbn [cover]. subst frags.
    apply (try_frags_complete (cover f np) np (t :: tc') pre id ms rest m Hin H1 H2). apply IH.
    pose proof (minus_shrinks (t :: tc') m H2). lia.
Qed.

(* ---------- what a cover guarantees ---------- *)
Lemma valid_cover_covers np tc frags r : valid_cover np tc frags r -> forall x, In x tc -> exists id m, In (id, m) r /\ In x m.
Proof.
  induction 1 as [frags|tc frags pre id ms rest m r Hne Hf Hin H1 H2 Hv IH]; intros x Hx; [destruct Hx|].
  destruct (in_dec Z.eq_dec x m) as [Hm|Hm].
  - exists id, m. split; [left; reflexivity|exact Hm].
  - destruct (IH x) as (id' & m' & H3 & H4); [apply minus_spec; auto|]. exists id', m'. split; [right; exact H3|exact H4].
Qed.

(* an unexplained atom (to be covered, not a recognised atom) lies in exactly one chosen placement *)
Lemma valid_cover_once np tc frags r : valid_cover np tc frags r ->
  forall x, In x tc -> ~ In x np -> C06.Model.count (fun im => zmem x (snd im)) r = 1%nat.
Proof.
  induction 1 as [frags|tc frags pre id ms rest m r Hne Hf Hin H1 H2 Hv IH]; intros x Hx Hnp; [destruct Hx|].
  cbn [C06.Model.count snd]. destruct (zmem x m) eqn:E.
  - (* covered now: no later placement may contain it, they all lie within np ++ (tc - m) *)
    assert (Hz : forall tc' frags' r', valid_cover np tc' frags' r' -> ~ In x tc' -> C06.Model.count (fun im => zmem x (snd im)) r' = 0%nat).
    { clear -Hnp. induction 1 as [|tc' frags' pre' id' ms' rest' m' r' Hne' Hf' Hin' H1' H2' Hv' IH']; intros Hout; [reflexivity|].
      cbn [C06.Model.count snd]. destruct (zmem x m') eqn:E'.
      - exfalso. apply zmem_in in E'. apply subsetb_spec in H1'. apply H1' in E'. apply in_app_iff in E' as [?|?]; contradiction.
      - cbn. apply IH'. intros H. apply minus_spec in H. tauto. }
    rewrite (Hz _ _ _ Hv); [reflexivity|]. intros H. apply minus_spec in H. apply zmem_in in E. tauto.
  - cbn. apply IH; [|exact Hnp]. apply minus_spec. split; [exact Hx|]. intros H. apply zmem_in in H. congruence.
Qed.

Lemma valid_cover_within np tc frags r : valid_cover np tc frags r ->
  forall id m, In (id, m) r -> incl m (np ++ tc) /\ exists ms, In (id, ms) frags /\ In m ms.
Proof.
  induction 1 as [frags|tc frags pre id ms rest m r Hne Hf Hin H1 H2 Hv IH]; intros id' m' Hr; [destruct Hr|].
  destruct Hr as [[= <- <-]|Hr].
  - split; [apply subsetb_spec; exact H1|]. exists ms. split; [subst; apply in_or_app; right; left; reflexivity|exact Hin].
  - destruct (IH id' m' Hr) as [I1 (ms' & I2 & I3)]. split.
    + intros y Hy. apply I1 in Hy. apply in_app_iff in Hy as [Hy|Hy]; apply in_or_app; [left; exact Hy|right]. apply minus_spec in Hy. tauto.
    + exists ms'. split; [|exact I3]. subst. apply in_or_app. right. exact I2.
Qed.
