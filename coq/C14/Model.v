(* C14 — model of vermouth/processors/canonicalize_modifications.py: find_ptm_atoms (l.53-111), allowed_ptms +
   ptm_node_matcher (l.35-50, 225-248), the recursive exact cover _cover_graph (l.200-222) and the outcome of fix_ptm
   (l.251-369).  Placements of a modification are the induced sub-graph isomorphisms of C06 under the colouring
   "recognised atoms by name, unrecognised atoms by element". *)
From Coq Require Import List Bool ZArith Lia.
From V Require Import C01.Model C06.Model.
Import ListNotations.
Open Scope Z_scope.

Definition subsetb (a b : list Z) : bool := forallb (fun x => zmem x b) a.
Definition meets (a b : list Z) : bool := existsb (fun x => zmem x b) a.
Definition minus (a b : list Z) : list Z := filter (fun x => negb (zmem x b)) a.

(* a fragment (modification) with the atom sets of its placements *)
Definition frag := (Z * list (list Z))%type.

(* _cover_graph: first fragment, first placement that lies within the available atoms and covers something still to be
   covered, such that the rest can be covered with this and the later fragments; KeyError (None) otherwise *)
Section CoverStep.
Variable rec : list Z -> list frag -> option (list (Z * list Z)).     (* the recursive call *)
Variables (nonptm to_cover : list Z).

Fixpoint try_matches (id : Z) (fr : list frag) (l : list (list Z)) : option (list (Z * list Z)) :=
  match l with
  | [] => None
  | m :: l' =>
      if subsetb m (nonptm ++ to_cover) && meets m to_cover then
        match rec (minus to_cover m) fr with
        | Some r => Some ((id, m) :: r)
        | None => try_matches id fr l'
        end
      else try_matches id fr l'
  end.

Fixpoint try_frags (fr : list frag) : option (list (Z * list Z)) :=
  match fr with
  | [] => None
  | (id, ms) :: rest =>
      match try_matches id fr ms with
      | Some r => Some r
      | None => try_frags rest
      end
  end.
End CoverStep.

Fixpoint cover (fuel : nat) (nonptm : list Z) (to_cover : list Z) (frags : list frag) : option (list (Z * list Z)) :=
  match to_cover with
  | [] => Some []
  | _ :: _ =>
    match fuel with
    | O => None
    | S f => try_frags (cover f nonptm) nonptm to_cover frags
    end
  end.

(* the covers the search ranges over: placements taken fragment by fragment in non-decreasing fragment order *)
Inductive valid_cover (nonptm : list Z) : list Z -> list frag -> list (Z * list Z) -> Prop :=
| vc_nil : forall frags, valid_cover nonptm [] frags []
| vc_step : forall to_cover frags pre id ms rest m r,
    to_cover <> [] ->
    frags = pre ++ (id, ms) :: rest -> In m ms ->
    subsetb m (nonptm ++ to_cover) = true -> meets m to_cover = true ->
    valid_cover nonptm (minus to_cover m) ((id, ms) :: rest) r ->
    valid_cover nonptm to_cover frags ((id, m) :: r).

(* ---------- groups of unexplained atoms (find_ptm_atoms) ---------- *)
Definition nbrs_of (es : list (Z * Z)) (k : Z) : list Z :=
  flat_map (fun e => (if Z.eqb (fst e) k then [snd e] else []) ++ (if Z.eqb (snd e) k then [fst e] else [])) es.

(* flood from one flagged atom over flagged atoms; the non-flagged neighbours met are the anchors *)
Fixpoint flood (fuel : nat) (es : list (Z * Z)) (flagged : list Z) (todo seen anchors : list Z) : list Z * list Z :=
  match fuel with
  | O => (seen, anchors)
  | S f =>
      match todo with
      | [] => (seen, anchors)
      | x :: rest =>
          if zmem x flagged then
            if zmem x seen then flood f es flagged rest seen anchors
            else flood f es flagged (rest ++ nbrs_of es x) (seen ++ [x]) anchors
          else flood f es flagged rest seen (if zmem x anchors then anchors else anchors ++ [x])
      end
  end.

Fixpoint groups (fuel : nat) (es : list (Z * Z)) (flagged : list Z) (left : list Z) : list (list Z * list Z) :=
  match fuel with
  | O => []
  | S f =>
      match left with
      | [] => []
      | x :: _ =>
          let '(atoms, anchors) := flood (S (2 * List.length es + List.length flagged)) es flagged [x] [] [] in
          (atoms, anchors) :: groups f es flagged (minus left atoms)
      end
  end.

(* ---------- one group of residues (fix_ptm, body of the groupby loop) ---------- *)
Record matom := { t_key : Z; t_name : Z; t_el : Z; t_resid : Z; t_ptm : bool }.
Record modnode := { d_key : Z; d_name : Z; d_el : Z; d_ptm : bool; d_newname : option (option Z) }.   (* replace: None = no replace of the name; Some None = remove *)
Record modification := { md_id : Z; md_nodes : list modnode; md_edges : list (Z * Z) }.

Definition colour_atom (a : matom) : Z := if t_ptm a then t_el a else 1000 + t_name a.
Definition colour_mod (n : modnode) : Z := if d_ptm n then d_el n else 1000 + d_name n.

Definition residue_graph (atoms : list matom) (es : list (Z * Z)) : graph :=
  let ks := map t_key atoms in
  {| g_nodes := map (fun a => (t_key a, colour_atom a)) atoms;
     g_edges := map (fun e => (fst e, snd e, 1)) (filter (fun e => zmem (fst e) ks && zmem (snd e) ks) es) |}.
Definition mod_graph (M : modification) : graph :=
  {| g_nodes := map (fun n => (d_key n, colour_mod n)) (md_nodes M); g_edges := map (fun e => (fst e, snd e, 1)) (md_edges M) |}.

Definition placements_of (M : modification) (G : graph) : list mapping := all_isos (mod_graph M) G.
Definition n_ptm (M : modification) : nat := List.length (filter d_ptm (md_nodes M)).

(* stable sort by decreasing number of added atoms *)
Fixpoint insert_mod (x : modification * list mapping) (l : list (modification * list mapping)) :=
  match l with
  | [] => [x]
  | y :: r => if Nat.ltb (n_ptm (fst y)) (n_ptm (fst x)) then x :: y :: r else y :: insert_mod x r
  end.
Definition options (mods : list modification) (G : graph) : list (modification * list mapping) :=
  fold_right insert_mod []
    (filter (fun mp => match snd mp with [] => false | _ => true end) (map (fun M => (M, placements_of M G)) mods)).

(* outcome for the groups that share their anchor residues: the identified placements, or None = removal + warning *)
Definition identify (mods : list modification) (atoms : list matom) (es : list (Z * Z)) (grp : list (list Z * list Z))
  : option (list (Z * list Z)) :=
  let G := residue_graph atoms es in
  let opts := options mods G in
  let to_cover := flat_map (fun g => fst g ++ snd g) grp in
  let nonptm := map t_key (filter (fun a => negb (t_ptm a)) atoms) in
  cover (S (List.length to_cover)) nonptm to_cover (map (fun o => (md_id (fst o), map (map snd) (snd o))) opts).
