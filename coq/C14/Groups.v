(* C14 — the flood fill of find_ptm_atoms: what a group is.  From one unexplained atom x the flood returns exactly the
   unexplained atoms joined to x by a chain of unexplained atoms, and as anchors exactly the recognised atoms bonded
   to one of them; the fuel chosen in the model always suffices (potential argument). *)
From Coq Require Import List Bool ZArith Lia.
From V Require Import C01.Model C01.Proofs C14.Model.
Import ListNotations.
Open Scope Z_scope.

Section Flood.
Variables (es : list (Z * Z)) (flagged : list Z).

(* joined by a chain of unexplained atoms *)
Inductive chain : Z -> Z -> Prop :=
| chain_here x : In x flagged -> chain x x
| chain_step x y z : chain x y -> In z (nbrs_of es y) -> In z flagged -> chain x z.

Record inv (x : Z) (todo seen anchors : list Z) : Prop := {
  i_seen : forall s, In s seen -> chain x s;
  i_todo : forall t, In t todo -> t = x \/ exists s, In s seen /\ In t (nbrs_of es s);
  i_anch : forall a, In a anchors -> ~ In a flagged /\ (a = x \/ exists s, In s seen /\ In a (nbrs_of es s));
  i_closed : forall s n, In s seen -> In n (nbrs_of es s) -> In n seen \/ In n todo \/ In n anchors;
  i_start : In x seen \/ In x todo \/ In x anchors }.

Lemma flood_inv fuel x : forall todo seen anchors,
  inv x todo seen anchors ->
  let r := flood fuel es flagged todo seen anchors in
  (forall s, In s (fst r) -> chain x s) /\
  (forall a, In a (snd r) -> ~ In a flagged /\ (a = x \/ exists s, In s (fst r) /\ In a (nbrs_of es s))) /\
  incl seen (fst r) /\ incl anchors (snd r).
Proof.
  induction fuel as [|f IH]; intros todo seen anchors I; cbn [flood].
  - cbn. split; [exact (i_seen _ _ _ _ I)|]. split; [exact (i_anch _ _ _ _ I)|]. split; intros ? H; exact H.
  - destruct todo as [|t rest].
    + cbn. split; [exact (i_seen _ _ _ _ I)|]. split; [exact (i_anch _ _ _ _ I)|]. split; intros ? H; exact H.
    + destruct (zmem t flagged) eqn:Ef.
      * destruct (zmem t seen) eqn:Es.
        -- assert (I' : inv x rest seen anchors).
           { destruct I as [A B C D E]. constructor; try assumption.
             - intros u Hu. apply B. right. exact Hu.
             - intros s n Hs Hn. destruct (D s n Hs Hn) as [H|[[<-|H]|H]]; auto. left. apply zmem_in. exact Es.
             - destruct E as [H|[[<-|H]|H]]; auto. left. apply zmem_in. exact Es. }
           apply (IH _ _ _ I').
        -- assert (Hch : chain x t).
           { apply zmem_in in Ef. destruct (i_todo _ _ _ _ I t (or_introl eq_refl)) as [->|(s & Hs & Hn)]; [constructor; exact Ef|].
             eapply chain_step; [apply (i_seen _ _ _ _ I); exact Hs|exact Hn|exact Ef]. }
           assert (I' : inv x (rest ++ nbrs_of es t) (seen ++ [t]) anchors).
           { destruct I as [A B C D E]. constructor.
             - intros s Hs. apply in_app_iff in Hs as [Hs|[<-|[]]]; [apply A; exact Hs|exact Hch].
             - intros u Hu. apply in_app_iff in Hu as [Hu|Hu].
               + destruct (B u (or_intror Hu)) as [->|(s & Hs & Hn)]; [left; reflexivity|right; exists s; split; [apply in_or_app; left; exact Hs|exact Hn]].
               + right. exists t. split; [apply in_or_app; right; left; reflexivity|exact Hu].
             - intros a Ha. destruct (C a Ha) as [H1 [->|(s & Hs & Hn)]]; split; try assumption; [left; reflexivity|].
               right. exists s. split; [apply in_or_app; left; exact Hs|exact Hn].
             - intros s n Hs Hn. apply in_app_iff in Hs as [Hs|[<-|[]]].
               + destruct (D s n Hs Hn) as [H|[[<-|H]|H]].
                 * left. apply in_or_app. left. exact H.
                 * left. apply in_or_app. right. left. reflexivity.
                 * right. left. apply in_or_app. left. exact H.
                 * right. right. exact H.
               + right. left. apply in_or_app. right. exact Hn.
             - destruct E as [H|[[<-|H]|H]].
               + left. apply in_or_app. left. exact H.
               + left. apply in_or_app. right. left. reflexivity.
               + right. left. apply in_or_app. left. exact H.
               + right. right. exact H. }
           destruct (IH _ _ _ I') as (R1 & R2 & R3 & R4). split; [exact R1|]. split; [exact R2|]. split; [|exact R4].
           intros s Hs. apply R3. apply in_or_app. left. exact Hs.
      * assert (Hnf : ~ In t flagged) by (intros H; apply zmem_in in H; congruence).
        set (anchors' := if zmem t anchors then anchors else anchors ++ [t]).
        assert (Hsub : incl anchors anchors') by (unfold anchors'; destruct (zmem t anchors); intros a Ha; [exact Ha|apply in_or_app; left; exact Ha]).
        assert (Ht' : In t anchors') by (unfold anchors'; destruct (zmem t anchors) eqn:E; [apply zmem_in; exact E|apply in_or_app; right; left; reflexivity]).
        assert (I' : inv x rest seen anchors').
        { destruct I as [A B C D E]. constructor; try assumption.
          - intros u Hu. apply B. right. exact Hu.
          - intros a Ha. unfold anchors' in Ha. destruct (zmem t anchors); [apply C; exact Ha|].
            apply in_app_iff in Ha as [Ha|[<-|[]]]; [apply C; exact Ha|]. split; [exact Hnf|]. apply B. left. reflexivity.
          - intros s n Hs Hn. destruct (D s n Hs Hn) as [H|[[<-|H]|H]]; auto.
          - destruct E as [H|[[<-|H]|H]]; auto. }
        destruct (IH _ _ _ I') as (R1 & R2 & R3 & R4). split; [exact R1|]. split; [exact R2|]. split; [exact R3|].
        intros a Ha. apply R4. apply Hsub. exact Ha.
Qed.

(* soundness of a group: its atoms are chained to the start through unexplained atoms; its anchors are recognised atoms
   bonded to one of its atoms *)
Theorem flood_sound fuel x : In x flagged ->
  let r := flood fuel es flagged [x] [] [] in
  (forall s, In s (fst r) -> chain x s) /\
  (forall a, In a (snd r) -> ~ In a flagged /\ exists s, In s (fst r) /\ In a (nbrs_of es s)).
Proof.
  intros Hx. assert (I : inv x [x] [] []).
  { constructor.
    - intros s [].
    - intros t [<-|[]]. left. reflexivity.
    - intros a [].
    - intros s n [].
    - right. left. left. reflexivity. }
  destruct (flood_inv fuel x _ _ _ I) as (R1 & R2 & _ & _). split; [exact R1|].
  intros a Ha. destruct (R2 a Ha) as [H1 [->|H2]]; [contradiction|]. split; assumption.
Qed.

(* ---------- the flood is complete: a potential bounds the number of steps ---------- *)
Hypothesis flagged_nodup : NoDup flagged.

Definition deg (k : Z) : nat := List.length (nbrs_of es k).
Fixpoint sumU (l seen : list Z) : nat :=
  match l with [] => O | f :: r => ((if zmem f seen then 0 else S (deg f)) + sumU r seen)%nat end.

Lemma zmem_snoc a seen t : zmem a (seen ++ [t]) = zmem a seen || Z.eqb a t.
Proof. unfold zmem. rewrite existsb_app. cbn. rewrite orb_false_r. reflexivity. Qed.

Lemma sumU_skip l seen t : ~ In t l -> sumU l (seen ++ [t]) = sumU l seen.
Proof.
  induction l as [|f r IH]; intros Hn; cbn; [reflexivity|]. rewrite zmem_snoc.
  destruct (Z.eqb_spec f t) as [->|Hne]; [exfalso; apply Hn; left; reflexivity|]. rewrite orb_false_r, IH; [reflexivity|].
  intros H. apply Hn. right. exact H.
Qed.

Lemma sumU_take l seen t : NoDup l -> In t l -> zmem t seen = false -> (sumU l (seen ++ [t]) + S (deg t) = sumU l seen)%nat.
Proof.
  induction l as [|f r IH]; intros Hnd Hin Hs; [destruct Hin|]. inversion Hnd as [|? ? Hf Hr]; subst. cbn. rewrite zmem_snoc.
  destruct Hin as [->|Hin].
  - rewrite Hs, Z.eqb_refl. cbn. rewrite sumU_skip by exact Hf. lia.
  - destruct (Z.eqb_spec f t) as [->|Hne]; [contradiction|]. rewrite orb_false_r. specialize (IH Hr Hin Hs). lia.
Qed.

Lemma flood_closed fuel x : forall todo seen anchors,
  inv x todo seen anchors -> (List.length todo + sumU flagged seen <= fuel)%nat ->
  let r := flood fuel es flagged todo seen anchors in
  forall s n, In s (fst r) -> In n (nbrs_of es s) -> In n (fst r) \/ In n (snd r).
Proof.
  induction fuel as [|f IH]; intros todo seen anchors I Hf; cbn [flood].
  - destruct todo; [|cbn in Hf; lia]. cbn. intros s n Hs Hn. destruct (i_closed _ _ _ _ I s n Hs Hn) as [H|[[]|H]]; auto.
  - destruct todo as [|t rest].
    + cbn. intros s n Hs Hn. destruct (i_closed _ _ _ _ I s n Hs Hn) as [H|[[]|H]]; auto.
    + destruct (zmem t flagged) eqn:Ef.
      * destruct (zmem t seen) eqn:Es.
        -- apply IH; [|cbn in Hf; lia]. destruct I as [A B C D E]. constructor; try assumption.
           ++ intros u Hu. apply B. right. exact Hu.
           ++ intros s n Hs Hn. destruct (D s n Hs Hn) as [H|[[<-|H]|H]]; auto. left. apply zmem_in. exact Es.
           ++ destruct E as [H|[[<-|H]|H]]; auto. left. apply zmem_in. exact Es.
        -- assert (Hch : chain x t).
           { apply zmem_in in Ef. destruct (i_todo _ _ _ _ I t (or_introl eq_refl)) as [->|(s & Hs & Hn)]; [constructor; exact Ef|].
             eapply chain_step; [apply (i_seen _ _ _ _ I); exact Hs|exact Hn|exact Ef]. }
           apply IH.
           ++ destruct I as [A B C D E]. constructor.
              ** intros s Hs. apply in_app_iff in Hs as [Hs|[<-|[]]]; [apply A; exact Hs|exact Hch].
              ** intros u Hu. apply in_app_iff in Hu as [Hu|Hu].
                 --- destruct (B u (or_intror Hu)) as [->|(s & Hs & Hn)]; [left; reflexivity|right; exists s; split; [apply in_or_app; left; exact Hs|exact Hn]].
                 --- right. exists t. split; [apply in_or_app; right; left; reflexivity|exact Hu].
              ** intros a Ha. destruct (C a Ha) as [H1 [->|(s & Hs & Hn)]]; split; try assumption; [left; reflexivity|].
                 right. exists s. split; [apply in_or_app; left; exact Hs|exact Hn].
              ** intros s n Hs Hn. apply in_app_iff in Hs as [Hs|[<-|[]]].
                 --- destruct (D s n Hs Hn) as [H|[[<-|H]|H]].
                     +++ left. apply in_or_app. left. exact H.
                     +++ left. apply in_or_app. right. left. reflexivity.
                     +++ right. left. apply in_or_app. left. exact H.
                     +++ right. right. exact H.
                 --- right. left. apply in_or_app. right. exact Hn.
              ** destruct E as [H|[[<-|H]|H]].
                 --- left. apply in_or_app. left. exact H.
                 --- left. apply in_or_app. right. left. reflexivity.
                 --- right. left. apply in_or_app. left. exact H.
                 --- right. right. exact H.
           ++ apply zmem_in in Ef. pose proof (sumU_take flagged seen t flagged_nodup Ef Es) as Hs.
              rewrite app_length. fold (deg t). cbn in Hf. lia.
      * apply IH; [|cbn in Hf; lia].
        assert (Hnf : ~ In t flagged) by (intros H; apply zmem_in in H; congruence).
        destruct I as [A B C D E]. constructor; try assumption.
        -- intros u Hu. apply B. right. exact Hu.
        -- intros a Ha. destruct (zmem t anchors); [apply C; exact Ha|].
           apply in_app_iff in Ha as [Ha|[<-|[]]]; [apply C; exact Ha|]. split; [exact Hnf|]. apply B. left. reflexivity.
        -- intros s n Hs Hn. destruct (D s n Hs Hn) as [H|[[<-|H]|H]]; auto.
           ++ right. right. destruct (zmem t anchors) eqn:E'; [apply zmem_in; exact E'|apply in_or_app; right; left; reflexivity].
           ++ right. right. destruct (zmem t anchors); [exact H|apply in_or_app; left; exact H].
        -- destruct E as [H|[[<-|H]|H]]; auto.
           ++ right. right. destruct (zmem t anchors) eqn:E'; [apply zmem_in; exact E'|apply in_or_app; right; left; reflexivity].
           ++ right. right. destruct (zmem t anchors); [exact H|apply in_or_app; left; exact H].
Qed.

(* the sum of degrees is bounded by twice the number of bonds *)
Lemma sum_deg_bound : forall l, NoDup l -> (fold_right (fun f acc => deg f + acc) 0 l <= 2 * List.length es)%nat.
Proof.
  unfold deg, nbrs_of. clear flagged_nodup. induction es as [|e r IH]; intros l Hnd.
  - cbn [flat_map List.length]. clear Hnd. induction l as [|a l IHl]; cbn; [lia|]. cbn in IHl. lia.
  - assert (Hsplit : forall l, (fold_right (fun f acc => List.length (flat_map (fun e0 => (if Z.eqb (fst e0) f then [snd e0] else []) ++ (if Z.eqb (snd e0) f then [fst e0] else [])) (e :: r)) + acc) 0 l
              = fold_right (fun f acc => List.length ((if Z.eqb (fst e) f then [snd e] else []) ++ (if Z.eqb (snd e) f then [fst e] else [])) + acc) 0 l
                + fold_right (fun f acc => List.length (flat_map (fun e0 => (if Z.eqb (fst e0) f then [snd e0] else []) ++ (if Z.eqb (snd e0) f then [fst e0] else [])) r) + acc) 0 l)%nat).
    { induction l0 as [|f l0 IHl]; cbn [fold_right]; [reflexivity|]. rewrite IHl. cbn [flat_map]. rewrite !app_length. lia. }
    rewrite Hsplit. specialize (IH l Hnd).
    assert (Hone : (fold_right (fun f acc => List.length ((if Z.eqb (fst e) f then [snd e] else []) ++ (if Z.eqb (snd e) f then [fst e] else [])) + acc) 0 l <= 2)%nat).
    { clear -Hnd. assert (G : forall l, NoDup l ->
        (fold_right (fun f acc => List.length ((if Z.eqb (fst e) f then [snd e] else []) ++ (if Z.eqb (snd e) f then [fst e] else [])) + acc) 0 l
         = (if zmem (fst e) l then 1 else 0) + (if zmem (snd e) l then 1 else 0))%nat).
      { induction l0 as [|f l0 IHl]; intros Hn; [reflexivity|]. inversion Hn as [|? ? Hf Hl]; subst. cbn [fold_right]. rewrite (IHl Hl), app_length.
        unfold zmem. cbn [existsb]. fold (zmem (fst e) l0). fold (zmem (snd e) l0).
        destruct (Z.eqb_spec (fst e) f) as [E1|N1], (Z.eqb_spec (snd e) f) as [E2|N2]; cbn [List.length orb].
        - assert (X1 : zmem (fst e) l0 = false) by (destruct (zmem (fst e) l0) eqn:X; [apply zmem_in in X; rewrite E1 in X; contradiction|reflexivity]).
          assert (X2 : zmem (snd e) l0 = false) by (destruct (zmem (snd e) l0) eqn:X; [apply zmem_in in X; rewrite E2 in X; contradiction|reflexivity]).
          rewrite X1, X2. reflexivity.
        - assert (X1 : zmem (fst e) l0 = false) by (destruct (zmem (fst e) l0) eqn:X; [apply zmem_in in X; rewrite E1 in X; contradiction|reflexivity]).
          rewrite X1. lia.
        - assert (X2 : zmem (snd e) l0 = false) by (destruct (zmem (snd e) l0) eqn:X; [apply zmem_in in X; rewrite E2 in X; contradiction|reflexivity]).
          rewrite X2. lia.
        - lia. }
      rewrite (G l Hnd). destruct (zmem (fst e) l), (zmem (snd e) l); lia. }
    cbn [List.length]. lia.
Qed.

Lemma sumU_bound : (sumU flagged [] <= 2 * List.length es + List.length flagged)%nat.
Proof.
  pose proof (sum_deg_bound flagged flagged_nodup) as H. revert H. generalize (2 * List.length es)%nat as B.
  clear. induction flagged as [|f r IH]; intros B H; cbn in *; [lia|]. specialize (IH (B - deg f)%nat). lia.
Qed.

(* a group is closed: every neighbour of one of its atoms is one of its atoms (if unexplained) or one of its anchors *)
Theorem flood_complete x : In x flagged ->
  let r := flood (S (2 * List.length es + List.length flagged)) es flagged [x] [] [] in
  forall s n, In s (fst r) -> In n (nbrs_of es s) -> In n (fst r) \/ In n (snd r).
Proof.
  intros Hx. apply (flood_closed _ x).
  - constructor.
    + intros s [].
    + intros t [<-|[]]. left. reflexivity.
    + intros a [].
    + intros s n [].
    + right. left. left. reflexivity.
  - pose proof sumU_bound. cbn [List.length]. lia.
Qed.
End Flood.
