(* C14 — case type and the two boolean functions evaluated on generated cases. *)
From Coq Require Import List Bool ZArith.
From V Require Import C01.Model C06.Model C14.Model.
Import ListNotations.
Open Scope Z_scope.

(* one iteration of the groupby loop of fix_ptm as the implementation ran it *)
Record run := { r_residue : list Z;                               (* atoms of the residues involved, minus those removed before *)
                r_groups : list (list Z * list Z);                (* the groups handled: (unexplained atoms, anchors) *)
                r_identified : option (list (Z * list (Z * Z))) }.  (* (modification, [(modification atom, molecule atom)]) or KeyError *)

Record fatom := { f_key : Z; f_name : option Z; f_labels : list Z }.

Inductive case :=
| CFix (mods : list modification) (atoms : list matom) (es : list (Z * Z))
       (igroups : list (list Z * list Z)) (runs : list run) (final : list fatom) (warnings : nat).

Definition set_eqb (a b : list Z) : bool := subsetb a b && subsetb b a.
Definition groups_same (a b : list (list Z * list Z)) : bool :=
  Nat.eqb (List.length a) (List.length b)
  && forallb (fun g => existsb (fun h => set_eqb (fst g) (fst h) && set_eqb (snd g) (snd h)) b) a.

Definition restrict (atoms : list matom) (ks : list Z) : list matom := filter (fun a => zmem (t_key a) ks) atoms.

Definition corr (k : case) : bool :=
  match k with
  | CFix mods atoms es igroups runs final warnings =>
      let flagged := map t_key (filter t_ptm atoms) in
      groups_same (groups (S (List.length flagged)) es flagged flagged) igroups
      && forallb (fun r =>
           match identify mods (restrict atoms (r_residue r)) es (r_groups r), r_identified r with
           | Some c, Some i => Nat.eqb (List.length c) (List.length i)
                               && forallb (fun im => existsb (fun jm => Z.eqb (fst im) (fst jm)) i) c
           | None, None => true
           | _, _ => false
           end) runs
  end.

Definition mod_of (mods : list modification) (id : Z) : option modification := find (fun M => Z.eqb (md_id M) id) mods.
Definition ffind (final : list fatom) (k : Z) : option fatom := find (fun a => Z.eqb (f_key a) k) final.
Definition resid_of (atoms : list matom) (k : Z) : Z := match find (fun a => Z.eqb (t_key a) k) atoms with Some a => t_resid a | None => 0 end.

(* The statement on the implementation's own answers. *)
Definition prop (k : case) : bool :=
  match k with
  | CFix mods atoms es _ runs final warnings =>
      let flagged := map t_key (filter t_ptm atoms) in
      (* every unexplained atom is handled by some run *)
      forallb (fun x => existsb (fun r => existsb (fun g => zmem x (fst g)) (r_groups r)) runs) flagged
      (* the graph in which the modifications of a group are looked for holds every atom of every residue the group
         touches: the residues of its unexplained atoms and of the recognised atoms they are bonded to *)
      && forallb (fun r => forallb (fun g =>
           let touched := map (fun k => match find (fun a => Z.eqb (t_key a) k) atoms with Some a => t_resid a | None => -1 end) (fst g ++ snd g) in
           (* (unexplained atoms of other groups may have been removed by an earlier run that identified nothing) *)
           forallb (fun a => negb (zmem (t_resid a) touched) || (t_ptm a && negb (zmem (t_key a) (fst g))) || zmem (t_key a) (r_residue r)) atoms) (r_groups r)) runs
      && forallb (fun r =>
           let G := residue_graph (restrict atoms (r_residue r)) es in
           let mine := flat_map fst (r_groups r) in
           match r_identified r with
           | Some ident =>
               (* each identified modification is placed as an induced sub-graph: anchors by name, added atoms by element *)
               forallb (fun im => match mod_of mods (fst im) with
                                  | Some M => is_iso (mod_graph M) G (snd im)
                                  | None => false end) ident
               (* each unexplained atom of these groups lies in exactly one placement *)
               && forallb (fun x => Nat.eqb (count (fun im => zmem x (map snd (snd im))) ident) 1) mine
               (* canonical names (or the replacement the modification asks for) *)
               && forallb (fun im => match mod_of mods (fst im) with
                                     | Some M => forallb (fun p => match find (fun n => Z.eqb (d_key n) (fst p)) (md_nodes M), ffind final (snd p) with
                                                                   | Some n, Some a =>
                                                                       match d_newname n with
                                                                       | Some nn => oz_eqb (f_name a) nn
                                                                       | None => if d_ptm n then oz_eqb (f_name a) (Some (d_name n)) else true
                                                                       end
                                                                   | _, _ => false end) (snd im)
                                     | None => false end) ident
               (* all atoms of the touched residues carry the label *)
               && forallb (fun im => forallb (fun x => match ffind final x with
                                                       | Some a => zmem (fst im) (f_labels a)
                                                       | None => zmem x flagged && negb (zmem x mine)     (* removed by a failed run *)
                                                       end) (r_residue r)) ident
           | None =>
               (* removed, with a warning *)
               forallb (fun x => match ffind final x with None => true | Some _ => false end) mine
               && negb (Nat.eqb warnings 0)
           end) runs
      (* as many warnings as failed runs *)
      && Nat.eqb warnings (List.length (filter (fun r => match r_identified r with None => true | Some _ => false end) runs))
  end.
