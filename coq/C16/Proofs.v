From Coq Require Import List Bool ZArith NArith String Ascii DecimalString Decimal DecimalZ Lia.
From V Require Import C16.Model.
Import ListNotations.
Open Scope nat_scope.

(* ---------- widths ---------- *)
Lemma rep_length c n : List.length (rep c n) = n.
Proof. induction n; cbn; congruence. Qed.

Lemma pad_length s t : List.length (pad s t) = Nat.max (List.length t) (f_width s).
Proof.
  unfold pad. destruct (eff_align s); rewrite ?app_length, ?rep_length.
  - lia.
  - lia.
  - assert ((f_width s - List.length t) / 2 <= f_width s - List.length t) by (apply Nat.div_le_upper_bound; lia).
    lia.
Qed.

Lemma truncate_length s t :
  f_trunc s = true -> 0 < f_width s -> f_width s <= List.length t -> List.length (truncate s t) = f_width s.
Proof.
  intros Ht Hw Hl. unfold truncate. rewrite Ht. cbn [negb orb].
  destruct (Nat.eqb_spec (f_width s) 0); [lia|]. cbn [orb].
  destruct (Nat.leb_spec (List.length t) (f_width s)); [lia|].
  destruct (eff_align s).
  - rewrite firstn_length. lia.
  - rewrite skipn_length. lia.
  - rewrite firstn_length, skipn_length.
    assert ((List.length t - f_width s) / 2 <= List.length t - f_width s) by (apply Nat.div_le_upper_bound; lia).
    lia.
Qed.

Lemma field_exact_width_lemma s v :
  f_trunc s = true -> 0 < f_width s -> List.length (fmt_field s v) = f_width s.
Proof.
  intros Ht Hw. unfold fmt_field. apply truncate_length; auto. rewrite pad_length. lia.
Qed.

(* a value that fits is not altered by the 't' option *)
Lemma truncate_fits s t : List.length t <= f_width s -> truncate s t = t.
Proof.
  intros H. unfold truncate. destruct (negb (f_trunc s)); [reflexivity|].
  destruct (Nat.eqb (f_width s) 0); [reflexivity|]. cbn.
  destruct (Nat.leb_spec (List.length t) (f_width s)); [reflexivity|lia].
Qed.

(* ---------- layouts: every field sits exactly in its own columns ---------- *)
Fixpoint layout_ok (cs : list chunk) : bool :=
  match cs with
  | [] => true
  | Lit _ :: r => layout_ok r
  | Fld s :: r => f_trunc s && Nat.ltb 0 (f_width s) && layout_ok r
  end.

Fixpoint nfields (cs : list chunk) : nat :=
  match cs with [] => 0 | Lit _ :: r => nfields r | Fld _ :: r => S (nfields r) end.

Fixpoint layout_width (cs : list chunk) : nat :=
  match cs with [] => 0 | c :: r => chunk_width c + layout_width r end.

Lemma fmt_line_length cs : forall vs,
  layout_ok cs = true -> List.length vs = nfields cs -> List.length (fmt_line cs vs) = layout_width cs.
Proof.
  induction cs as [|[t|s] r IH]; intros vs Hok Hn; cbn [layout_ok nfields layout_width fmt_line chunk_width] in *; [reflexivity| |].
  - rewrite app_length, IH; auto.
  - apply andb_prop in Hok as [Hs Hr]. apply andb_prop in Hs as [Ht Hw]. apply Nat.ltb_lt in Hw.
    destruct vs as [|v vs]; [discriminate|]. cbn in Hn. rewrite app_length, field_exact_width_lemma, IH; auto.
Qed.

Lemma slice_skip (a b : txt) k w : slice (List.length a + k) w (a ++ b) = slice k w b.
Proof.
  unfold slice. f_equal. induction a as [|x a IH]; cbn; [reflexivity|exact IH].
Qed.

Lemma slice_head (a b : txt) : slice 0 (List.length a) (a ++ b) = a.
Proof. unfold slice. cbn. induction a as [|x a IH]; cbn; [destruct b; reflexivity|]. f_equal. exact IH. Qed.

Lemma fields_in_place_lemma cs : forall vs i s v,
  layout_ok cs = true -> List.length vs = nfields cs ->
  nth_field cs i = Some s -> nth_error vs i = Some v ->
  slice (field_offset cs i) (f_width s) (fmt_line cs vs) = fmt_field s v.
Proof.
  induction cs as [|[t|s0] r IH]; intros vs i s v Hok Hn Hf Hv; cbn [layout_ok nfields fmt_line nth_field field_offset] in *; [discriminate| |].
  - rewrite slice_skip. eapply IH; eauto.
  - apply andb_prop in Hok as [Hs Hr]. apply andb_prop in Hs as [Ht Hw]. apply Nat.ltb_lt in Hw.
    destruct vs as [|v0 vs]; [discriminate|]. cbn in Hn.
    destruct i as [|j].
    + injection Hf as <-. cbn in Hv. injection Hv as <-.
      rewrite <- (field_exact_width_lemma s0 v0 Ht Hw) at 1. apply slice_head.
    + cbn in Hv. rewrite <- (field_exact_width_lemma s0 v0 Ht Hw) at 1. rewrite slice_skip. eapply IH; eauto.
Qed.

(* ---------- strip ---------- *)
Definition no_ws_ends (t : txt) : Prop :=
  match t with
  | [] => True
  | c :: _ => is_ws c = false /\ is_ws (last t c) = false
  end.

Lemma lstrip_rep_sp n t : lstrip (rep sp n ++ t) = lstrip t.
Proof. induction n; cbn; [reflexivity|exact IHn]. Qed.

Lemma lstrip_head c t : is_ws c = false -> lstrip (c :: t) = c :: t.
Proof. intros H. cbn. rewrite H. reflexivity. Qed.

Lemma rev_rep c n : List.rev (rep c n) = rep c n.
Proof.
  induction n; cbn; [reflexivity|]. rewrite IHn. clear. induction n; cbn; [reflexivity|]. rewrite IHn. reflexivity.
Qed.

Lemma strip_padded a b t : t <> [] -> no_ws_ends t -> strip (rep sp a ++ t ++ rep sp b) = t.
Proof.
  intros Hne Hw. destruct t as [|c r]; [congruence|]. destruct Hw as [Hc Hl].
  unfold strip. rewrite lstrip_rep_sp. change ((c :: r) ++ rep sp b) with (c :: (r ++ rep sp b)).
  rewrite lstrip_head by exact Hc.
  change (c :: r ++ rep sp b) with ((c :: r) ++ rep sp b). rewrite rev_app_distr, rev_rep, lstrip_rep_sp.
  assert (Hr : exists d q, List.rev (c :: r) = d :: q /\ d = last (c :: r) c).
  { destruct (exists_last (l := c :: r)) as (q & d & E); [discriminate|]. rewrite E.
    rewrite rev_app_distr. cbn. exists d, (List.rev q). split; [reflexivity|]. rewrite last_last. reflexivity. }
  destruct Hr as (d & q & E & Hd). rewrite E. rewrite lstrip_head by (rewrite Hd; exact Hl).
  rewrite <- E. apply rev_involutive.
Qed.

Lemma strip_blank a : strip (rep sp a) = [].
Proof.
  unfold strip. replace (rep sp a) with (rep sp a ++ []) by apply app_nil_r.
  rewrite lstrip_rep_sp. reflexivity.
Qed.

(* ---------- decimal integers ---------- *)
Lemma z_parse_str z : z_parse (z_str z) = Some z.
Proof.
  unfold z_parse, z_str, l2s, s2l. rewrite string_of_list_ascii_of_string.
  rewrite NilZero.isi.
  - cbn. rewrite DecimalZ.of_to. reflexivity.
  - destruct z; cbn; try discriminate. intros H. injection H as H.
    apply (f_equal Pos.of_uint) in H. rewrite DecimalPos.Unsigned.of_to in H. cbn in H. discriminate.
  - destruct z; cbn; try discriminate. intros H. injection H as H.
    apply (f_equal Pos.of_uint) in H. rewrite DecimalPos.Unsigned.of_to in H. cbn in H. discriminate.
Qed.

Lemma uint_chars d : Forall (fun c => is_ws c = false) (list_ascii_of_string (NilEmpty.string_of_uint d)).
Proof. induction d; cbn; constructor; auto. Qed.

Lemma z_str_chars z : Forall (fun c => is_ws c = false) (z_str z) /\ z_str z <> [].
Proof.
  unfold z_str, s2l. destruct (Z.to_int z) as [d|d]; cbn [NilZero.string_of_int].
  - unfold NilZero.string_of_uint. destruct d; try (split; [apply uint_chars|cbn; discriminate]).
    split; [repeat constructor|discriminate].
  - cbn. split; [|discriminate]. constructor; [reflexivity|].
    unfold NilZero.string_of_uint. destruct d; try apply uint_chars. repeat constructor.
Qed.

Lemma forall_no_ws_ends t : Forall (fun c => is_ws c = false) t -> no_ws_ends t.
Proof.
  intros H. destruct t as [|c r]; [exact I|]. split.
  - inversion H; assumption.
  - rewrite Forall_forall in H. apply H. destruct (exists_last (l := c :: r)) as (q & d & E); [discriminate|].
    rewrite E, last_last. apply in_or_app. right. left. reflexivity.
Qed.

(* ---------- a value that fits its field is read back unchanged, whatever blank
              columns the reader's slice covers around the field ---------- *)
Lemma pad_sp_shape s t : f_fill s = sp -> exists a b, pad s t = rep sp a ++ t ++ rep sp b.
Proof.
  intros Hf. unfold pad. rewrite Hf. destruct (eff_align s).
  - exists 0, (f_width s - List.length t). reflexivity.
  - exists (f_width s - List.length t), 0. cbn. rewrite app_nil_r. reflexivity.
  - eexists. eexists. reflexivity.
Qed.

Lemma rep_app c a b : rep c a ++ rep c b = rep c (a + b).
Proof. induction a; cbn; [reflexivity|]. rewrite IHa. reflexivity. Qed.

Lemma int_field_roundtrip_lemma s z a b :
  f_fill s = sp -> f_kind s = KInt -> List.length (z_str z) <= f_width s ->
  convert RInt (rep sp a ++ fmt_field s (VInt z) ++ rep sp b) = WInt z.
Proof.
  intros Hf Hk Hl. unfold fmt_field. rewrite Hk. cbn [render].
  destruct (pad_sp_shape s (z_str z) Hf) as (a' & b' & E).
  rewrite truncate_fits by (rewrite pad_length; lia). rewrite E.
  unfold convert. destruct (z_str_chars z) as [Hc Hne].
  replace (rep sp a ++ (rep sp a' ++ z_str z ++ rep sp b') ++ rep sp b)
    with (rep sp (a + a') ++ z_str z ++ rep sp (b' + b))
    by (rewrite <- !rep_app, <- !app_assoc; reflexivity).
  rewrite strip_padded by (auto using forall_no_ws_ends).
  destruct (z_str z) eqn:Ez; [congruence|]. rewrite <- Ez, z_parse_str. reflexivity.
Qed.

Lemma str_field_roundtrip_lemma s t a b :
  f_fill s = sp -> f_kind s = KStr -> List.length t <= f_width s -> no_ws_ends t ->
  convert RStr (rep sp a ++ fmt_field s (VStr t) ++ rep sp b) = WStr t.
Proof.
  intros Hf Hk Hl Hw. unfold fmt_field. rewrite Hk. cbn [render].
  destruct (pad_sp_shape s t Hf) as (a' & b' & E).
  rewrite truncate_fits by (rewrite pad_length; lia). rewrite E.
  unfold convert. f_equal.
  replace (rep sp a ++ (rep sp a' ++ t ++ rep sp b') ++ rep sp b)
    with (rep sp (a + a') ++ t ++ rep sp (b' + b))
    by (rewrite <- !rep_app, <- !app_assoc; reflexivity).
  destruct t as [|c r].
  - rewrite app_nil_l, rep_app. apply strip_blank.
  - apply strip_padded; [discriminate|exact Hw].
Qed.

(* an over-long value is cut to its own field: the most significant end is kept *)
Lemma overflow_keeps_end s v :
  f_trunc s = true -> 0 < f_width s -> f_width s < List.length (render (f_kind s) v) ->
  fmt_field s v =
    match eff_align s with
    | AL => firstn (f_width s) (render (f_kind s) v)
    | AR => skipn (List.length (render (f_kind s) v) - f_width s) (render (f_kind s) v)
    | AC => firstn (f_width s) (skipn ((List.length (render (f_kind s) v) - f_width s) / 2) (render (f_kind s) v))
    end.
Proof.
  intros Ht Hw Hl. unfold fmt_field.
  assert (Hp : pad s (render (f_kind s) v) = render (f_kind s) v).
  { unfold pad. replace (f_width s - List.length (render (f_kind s) v)) with 0 by lia.
    destruct (eff_align s); cbn; rewrite ?app_nil_r; reflexivity. }
  rewrite Hp. unfold truncate. rewrite Ht. cbn [negb orb].
  destruct (Nat.eqb_spec (f_width s) 0); [lia|]. cbn [orb].
  destruct (Nat.leb_spec (List.length (render (f_kind s) v)) (f_width s)); [lia|]. reflexivity.
Qed.
