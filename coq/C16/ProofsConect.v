From Coq Require Import List Bool ZArith Lia Sorted Permutation.
From V Require Import C16.Model C16.Spec.
Import ListNotations.
Open Scope Z_scope.

Lemma NoDup_app_intro {A} (a b : list A) :
  NoDup a -> NoDup b -> (forall x, In x a -> In x b -> False) -> NoDup (a ++ b).
Proof.
  induction a as [|x a IH]; cbn; intros Ha Hb Hd; [exact Hb|].
  inversion Ha as [|? ? Hx Hr]; subst. constructor.
  - rewrite in_app_iff. intros [H|H]; [contradiction|]. exact (Hd x (or_introl eq_refl) H).
  - apply IH; auto. intros y Hy. apply Hd. right; exact Hy.
Qed.

(* ---------- serial numbers ---------- *)
Lemma number_nodes_spec mi ks : forall s a x,
  In (a, x) (number_nodes mi ks s) -> fst a = mi /\ In (snd a) ks /\ s <= x < s + Z.of_nat (length ks).
Proof.
  induction ks as [|k ks IH]; intros s a x; cbn [number_nodes In length]; [tauto|].
  intros [H|H].
  - injection H as <- <-. cbn. split; [reflexivity|]. split; [auto|lia].
  - destruct (IH _ _ _ H) as (H1 & H2 & H3). split; [exact H1|]. split; [auto|lia].
Qed.

Lemma number_nodes_in mi ks : forall s k, In k ks -> exists x, In ((mi, k), x) (number_nodes mi ks s).
Proof.
  induction ks as [|j ks IH]; intros s k; cbn; [tauto|].
  intros [->|H]; [eauto|]. destruct (IH (s + 1) k H) as [x Hx]. eauto.
Qed.

Lemma number_nodes_serials_nodup mi ks : forall s, NoDup (map snd (number_nodes mi ks s)).
Proof.
  induction ks as [|k ks IH]; intros s; cbn; constructor; [|apply IH].
  intros H. apply in_map_iff in H as ([a x] & Hx & Hin). cbn in Hx. subst x.
  apply number_nodes_spec in Hin. lia.
Qed.

Lemma number_nodes_keys_nodup mi ks : forall s, NoDup ks -> NoDup (map fst (number_nodes mi ks s)).
Proof.
  induction ks as [|k ks IH]; intros s H; cbn; [constructor|].
  inversion H as [|? ? Hk Hr]; subst. constructor; [|apply IH; exact Hr].
  intros Hin. apply in_map_iff in Hin as ([a x] & Ha & Hin). cbn in Ha. subst a.
  apply number_nodes_spec in Hin. cbn in Hin. tauto.
Qed.

Lemma assign_spec ms : forall mi s a x,
  In (a, x) (assign ms mi s) ->
  (mi <= fst a)%nat /\ s <= x /\ exists m, nth_error ms (fst a - mi) = Some m /\ In (snd a) (p_nodes m).
Proof.
  induction ms as [|m ms IH]; intros mi s a x; cbn [assign]; [intros []|].
  rewrite in_app_iff. intros [H|H].
  - apply number_nodes_spec in H as (H1 & H2 & H3). rewrite H1. split; [lia|]. split; [lia|].
    exists m. rewrite Nat.sub_diag. split; [reflexivity|exact H2].
  - apply IH in H as (H1 & H2 & m' & Hn & Hin). split; [lia|]. split; [lia|].
    exists m'. replace (fst a - mi)%nat with (S (fst a - S mi)) by lia. split; [exact Hn|exact Hin].
Qed.

Lemma assign_serials_nodup ms : forall mi s, NoDup (map snd (assign ms mi s)).
Proof.
  induction ms as [|m ms IH]; intros mi s; cbn [assign]; [constructor|].
  rewrite map_app. apply NoDup_app_intro; [apply number_nodes_serials_nodup|apply IH|].
  intros x H1 H2. apply in_map_iff in H1 as ([a y] & Hy & Hin1). apply in_map_iff in H2 as ([b z] & Hz & Hin2).
  cbn in *. subst. apply number_nodes_spec in Hin1. apply assign_spec in Hin2. lia.
Qed.

Definition sys_wf (ms : list pmol) : Prop :=
  Forall (fun m => NoDup (p_nodes m) /\
                   forall u v, In (u, v) (p_edges m) -> In u (p_nodes m) /\ In v (p_nodes m) /\ u <> v) ms.

Lemma assign_keys_nodup ms : forall mi s, sys_wf ms -> NoDup (map fst (assign ms mi s)).
Proof.
  induction ms as [|m ms IH]; intros mi s H; cbn [assign]; [constructor|].
  inversion H as [|? ? [Hm _] Hr]; subst.
  rewrite map_app. apply NoDup_app_intro; [apply number_nodes_keys_nodup; exact Hm|apply IH; exact Hr|].
  intros a H1 H2. apply in_map_iff in H1 as ([a1 y] & Hy & Hin1). apply in_map_iff in H2 as ([a2 z] & Hz & Hin2).
  cbn in *. subst. apply number_nodes_spec in Hin1. apply assign_spec in Hin2. lia.
Qed.

Lemma assign_in ms : forall mi s j m k,
  nth_error ms j = Some m -> In k (p_nodes m) -> exists x, In (((mi + j)%nat, k), x) (assign ms mi s).
Proof.
  induction ms as [|m0 ms IH]; intros mi s j m k Hn Hk; [destruct j; discriminate|].
  cbn [assign]. destruct j as [|j]; cbn in Hn.
  - injection Hn as ->. destruct (number_nodes_in mi (p_nodes m) s k Hk) as [x Hx].
    exists x. rewrite Nat.add_0_r. apply in_or_app. left. exact Hx.
  - destruct (IH (S mi) (s + Z.of_nat (length (p_nodes m0)) + 1) j m k Hn Hk) as [x Hx].
    exists x. replace (mi + S j)%nat with (S mi + j)%nat by lia. apply in_or_app. right. exact Hx.
Qed.

Lemma lookup_in tbl mi k x : NoDup (map fst tbl) -> In ((mi, k), x) tbl -> lookup tbl mi k = Some x.
Proof.
  induction tbl as [|[[mj j] y] r IH]; cbn; [tauto|]. intros Hnd [H|H].
  - injection H as -> -> ->. rewrite Nat.eqb_refl, Z.eqb_refl. reflexivity.
  - inversion Hnd as [|? ? Hx Hr]; subst.
    destruct (Nat.eqb_spec mi mj) as [->|]; cbn; [|apply IH; auto].
    destruct (Z.eqb_spec j k) as [->|]; [|apply IH; auto].
    exfalso. apply Hx. apply (in_map fst) in H. exact H.
Qed.

Lemma lookup_some tbl mi k x : lookup tbl mi k = Some x -> In ((mi, k), x) tbl.
Proof.
  induction tbl as [|[[mj j] y] r IH]; cbn; [discriminate|].
  destruct (Nat.eqb_spec mi mj) as [->|]; cbn; [|auto].
  destruct (Z.eqb_spec j k) as [->|]; [|auto]. intros [= <-]. auto.
Qed.

Lemma rlookup_in tbl a x : NoDup (map snd tbl) -> In (a, x) tbl -> rlookup tbl x = Some a.
Proof.
  induction tbl as [|[b y] r IH]; cbn; [tauto|]. intros Hnd [H|H].
  - injection H as -> ->. rewrite Z.eqb_refl. reflexivity.
  - inversion Hnd as [|? ? Hx Hr]; subst. destruct (Z.eqb_spec x y) as [->|]; [|apply IH; auto].
    exfalso. apply Hx. apply (in_map snd) in H. exact H.
Qed.

Lemma rlookup_some tbl a x : rlookup tbl x = Some a -> In (a, x) tbl.
Proof.
  induction tbl as [|[b y] r IH]; cbn; [discriminate|].
  destruct (Z.eqb_spec x y) as [->|]; [intros [= <-]; auto|auto].
Qed.

Lemma chunks4_concat fuel : forall l, (length l <= fuel)%nat -> concat (chunks4 fuel l) = l.
Proof.
  induction fuel as [|f IH]; intros l H.
  - destruct l; [reflexivity|cbn in H; lia].
  - destruct l as [|x r]; [reflexivity|]. cbn [chunks4 concat].
    rewrite IH; [apply firstn_skipn|]. rewrite skipn_length. cbn [length] in *. lia.
Qed.

Lemma chunks4_nonempty fuel : forall l c, In c (chunks4 fuel l) -> c <> [].
Proof.
  induction fuel as [|f IH]; intros l c; destruct l as [|x r]; cbn; try tauto.
  - intros [<-|[]]. discriminate.
  - intros [<-|H]; [discriminate|]. eapply IH; eauto.
Qed.

Lemma insertZ_in x l y : In y (insertZ x l) <-> y = x \/ In y l.
Proof.
  induction l as [|z r IH]; cbn; [intuition|]. destruct (Z.leb x z); cbn; [intuition|]. rewrite IH. intuition.
Qed.
Lemma sortZ_in l y : In y (sortZ l) <-> In y l.
Proof. induction l as [|x r IH]; cbn; [tauto|]. rewrite insertZ_in, IH. intuition. Qed.

Lemma neighbours_in m k n : In n (neighbours m k) <-> (In (k, n) (p_edges m) \/ In (n, k) (p_edges m)).
Proof.
  unfold neighbours. rewrite in_flat_map. split.
  - intros ([a b] & Hin & H). cbn in H. destruct (Z.eqb_spec a k) as [->|Ha].
    + destruct H as [<-|[]]. auto.
    + destruct (Z.eqb_spec b k) as [->|Hb]; [|destruct H]. destruct H as [<-|[]]. auto.
  - intros [H|H].
    + exists (k, n). split; [exact H|]. cbn. rewrite Z.eqb_refl. left; reflexivity.
    + exists (n, k). split; [exact H|]. cbn. destruct (Z.eqb_spec n k) as [->|]; [left; reflexivity|].
      rewrite Z.eqb_refl. left; reflexivity.
Qed.

Lemma enumerate_in {A} (l : list A) : forall i j x, In (j, x) (enumerate l i) <-> (i <= j)%nat /\ nth_error l (j - i) = Some x.
Proof.
  induction l as [|y r IH]; intros i j x; cbn.
  - split; [tauto|]. intros [_ H]. destruct (j - i)%nat; discriminate.
  - rewrite IH. split.
    + intros [H|[H1 H2]].
      * injection H as <- <-. rewrite Nat.sub_diag. auto.
      * split; [lia|]. replace (j - i)%nat with (S (j - S i)) by lia. exact H2.
    + intros [H1 H2]. destruct (Nat.eq_dec i j) as [->|Hn].
      * rewrite Nat.sub_diag in H2. injection H2 as <-. auto.
      * right. split; [lia|]. replace (j - i)%nat with (S (j - S i)) in H2 by lia. exact H2.
Qed.

(* ---------- the bonds read back are exactly the bonds written ---------- *)
Lemma conect_roundtrip_lemma ms : sys_wf ms ->
  forall mi u mj v,
  In ((mi, u), (mj, v)) (read_conects (assign ms 0 1) (conect_records ms)) <->
  (mi = mj /\ u < v /\ exists m, nth_error ms mi = Some m /\ (In (u, v) (p_edges m) \/ In (v, u) (p_edges m))).
Proof.
  intros W mi u mj v. set (tbl := assign ms 0 1).
  assert (Hk : NoDup (map fst tbl)) by (apply assign_keys_nodup; exact W).
  assert (Hs : NoDup (map snd tbl)) by apply assign_serials_nodup.
  unfold read_conects, conect_records. fold tbl. split.
  - intros H. apply in_flat_map in H as (rec & Hrec & H).
    apply in_flat_map in Hrec as ([i m] & Him & Hrec). cbn [fst snd] in Hrec.
    apply in_flat_map in Hrec as (k & Hk0 & Hrec).
    destruct (lookup tbl i k) as [s0|] eqn:E0; [|destruct Hrec].
    apply in_map_iff in Hrec as (c & <- & Hc).
    apply lookup_some in E0. rewrite (rlookup_in tbl (i, k) s0 Hs E0) in H.
    apply in_flat_map in H as (a & Ha & H).
    destruct (rlookup tbl a) as [nn|] eqn:Ea; [|destruct H]. destruct H as [H|[]].
    assert (Hi : i = mi) by congruence. assert (Hku : k = u) by congruence.
    assert (Hnn : nn = (mj, v)) by congruence. subst i k nn. clear H.
    apply rlookup_some in Ea.
    assert (Hat : In a (serials_above tbl mi m u)).
    { rewrite <- (chunks4_concat (length (serials_above tbl mi m u)) (serials_above tbl mi m u)) by lia.
      apply in_concat. eauto. }
    unfold serials_above in Hat. apply (proj1 (sortZ_in _ _)) in Hat. apply in_flat_map in Hat as (n & Hn & Hat).
    destruct (Z.ltb_spec u n) as [Hlt|]; [|destruct Hat].
    destruct (lookup tbl mi n) as [sn|] eqn:En; [|destruct Hat]. destruct Hat as [<-|[]].
    apply lookup_some in En.
    assert (Heq : (mj, v) = (mi, n)).
    { clear -Hs Ea En. induction tbl as [|[b y] r IH]; [destruct Ea|]. cbn in Hs. inversion Hs as [|? ? Hx Hr]; subst.
      destruct Ea as [Ea|Ea], En as [En|En].
      - congruence.
      - injection Ea as -> ->. exfalso. apply Hx. apply (in_map snd) in En. exact En.
      - injection En as -> ->. exfalso. apply Hx. apply (in_map snd) in Ea. exact Ea.
      - auto. }
    injection Heq as -> ->. split; [reflexivity|]. split; [exact Hlt|].
    apply enumerate_in in Him as [_ Him]. rewrite Nat.sub_0_r in Him.
    exists m. split; [exact Him|]. apply neighbours_in. exact Hn.
  - intros (<- & Hlt & m & Hm & He).
    assert (Hends : In u (p_nodes m) /\ In v (p_nodes m)).
    { unfold sys_wf in W. rewrite Forall_forall in W. destruct (W m (nth_error_In _ _ Hm)) as [_ Hed].
      destruct He as [He|He]; destruct (Hed _ _ He) as (A & B & _); auto. }
    destruct Hends as [Hu Hv].
    destruct (assign_in ms 0 1 mi m u Hm Hu) as [su Hsu]. destruct (assign_in ms 0 1 mi m v Hm Hv) as [sv Hsv].
    cbn in Hsu, Hsv. fold tbl in Hsu, Hsv.
    assert (Htodo : In sv (serials_above tbl mi m u)).
    { unfold serials_above. apply sortZ_in. apply in_flat_map. exists v. split; [apply neighbours_in; exact He|].
      destruct (Z.ltb_spec u v); [|lia]. rewrite (lookup_in tbl mi v sv Hk Hsv). left; reflexivity. }
    rewrite <- (chunks4_concat (length (serials_above tbl mi m u)) (serials_above tbl mi m u)) in Htodo by lia.
    apply in_concat in Htodo as (c & Hc & Hsvc).
    apply in_flat_map. exists (su :: c). split.
    + apply in_flat_map. exists (mi, m). split; [apply enumerate_in; split; [lia|rewrite Nat.sub_0_r; exact Hm]|].
      cbn [fst snd]. apply in_flat_map. exists u. split; [exact Hu|].
      rewrite (lookup_in tbl mi u su Hk Hsu). apply in_map. exact Hc.
    + rewrite (rlookup_in tbl (mi, u) su Hs Hsu). apply in_flat_map. exists sv. split; [exact Hsvc|].
      rewrite (rlookup_in tbl (mi, v) sv Hs Hsv). left; reflexivity.
Qed.
