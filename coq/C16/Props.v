(* C16 — property theorems only. *)
From Coq Require Import List Bool ZArith NArith String Ascii Lia.
From V Require Import C16.Model C16.Spec C16.Proofs C16.ProofsConect C16.Decimal.
From V Require Import Extracted.Formats.
Import ListNotations.

(* With the 't' option a field occupies EXACTLY its width, for every value: overflow can
   never shift a neighbouring field. *)
Theorem field_exact_width : forall s v,
  f_trunc s = true -> (0 < f_width s)%nat -> List.length (fmt_field s v) = f_width s.
Proof. exact field_exact_width_lemma. Qed.
Print Assumptions field_exact_width.

(* In any record layout whose fields all truncate, the columns of the i-th field hold
   exactly the formatted i-th value, whatever the other values are. *)
Theorem fields_in_place : forall cs vs i s v,
  layout_ok cs = true -> List.length vs = nfields cs ->
  nth_field cs i = Some s -> nth_error vs i = Some v ->
  slice (field_offset cs i) (f_width s) (fmt_line cs vs) = fmt_field s v.
Proof. exact fields_in_place_lemma. Qed.
Print Assumptions fields_in_place.

Theorem record_length : forall cs vs,
  layout_ok cs = true -> List.length vs = nfields cs -> List.length (fmt_line cs vs) = layout_width cs.
Proof. exact fmt_line_length. Qed.
Print Assumptions record_length.

(* A number / name that fits its field is read back unchanged by slice + strip + convert,
   also when the reader's slice covers blank columns around the field. *)
Theorem int_field_roundtrip : forall s z a b,
  f_fill s = sp -> f_kind s = KInt -> (List.length (z_str z) <= f_width s)%nat ->
  convert RInt (rep sp a ++ fmt_field s (VInt z) ++ rep sp b) = WInt z.
Proof. exact int_field_roundtrip_lemma. Qed.
Print Assumptions int_field_roundtrip.

Theorem str_field_roundtrip : forall s t a b,
  f_fill s = sp -> f_kind s = KStr -> (List.length t <= f_width s)%nat -> no_ws_ends t ->
  convert RStr (rep sp a ++ fmt_field s (VStr t) ++ rep sp b) = WStr t.
Proof. exact str_field_roundtrip_lemma. Qed.
Print Assumptions str_field_roundtrip.

(* A fixed-point number (coordinates, occupancy, box) of ANY size and sign, written with p decimals, is read back
   by the float columns as exactly that number with p decimals: the spelling "[-]digits.digits" with the fraction
   zero-padded on the left is inverted by the decimal reader (standard-library decimal parser included). *)
Theorem fix_number_roundtrip : forall p u, dec_parse (render_fix p u) = Some (u, p).
Proof. exact fix_roundtrip. Qed.
Print Assumptions fix_number_roundtrip.

Theorem fix_field_roundtrip : forall s p u a b,
  f_fill s = sp -> f_kind s = KFix p -> (List.length (render_fix p u) <= f_width s)%nat ->
  convert RFloat (rep sp a ++ fmt_field s (VFix u) ++ rep sp b) = WDec u p.
Proof. exact fix_field_roundtrip_lemma. Qed.
Print Assumptions fix_field_roundtrip.

(* An over-long value is cut inside its own field, keeping the significant end. *)
Theorem overflow_truncates_in_place : forall s v,
  f_trunc s = true -> (0 < f_width s)%nat -> (f_width s < List.length (render (f_kind s) v))%nat ->
  fmt_field s v =
    match eff_align s with
    | AL => firstn (f_width s) (render (f_kind s) v)
    | AR => skipn (List.length (render (f_kind s) v) - f_width s) (render (f_kind s) v)
    | AC => firstn (f_width s) (skipn ((List.length (render (f_kind s) v) - f_width s) / 2) (render (f_kind s) v))
    end.
Proof. exact overflow_keeps_end. Qed.
Print Assumptions overflow_truncates_in_place.

(* The tables regenerated from the source are compatible: every named field of the PDB
   reader covers exactly one field of the ATOM format (plus blank columns), of the same
   kind, in the order of the arguments passed to the formatter. Finite: the tables. *)
Theorem compatible_extracted_pdb :
  option_map (map fst) (field_map pdb_atom_w pdb_atom_r) = Some pdb_atom_args /\
  option_map (map snd) (field_map pdb_atom_w pdb_atom_r) = Some (seq 0 (List.length pdb_atom_args)) /\
  nfields pdb_atom_w = List.length pdb_atom_args /\ layout_ok pdb_atom_w = true /\ layout_ok pdb_ter_w = true.
Proof. vm_compute. repeat split. Qed.
Print Assumptions compatible_extracted_pdb.

(* CONECT: the number format has the width the reader steps by, after a prefix of the
   length the reader starts at; the chunk size keeps the record within 80 columns. *)
Theorem compatible_extracted_conect :
  List.length pdb_conect_prefix = pdb_conect_start /\
  match pdb_conect_num with
  | [Fld s] => f_width s = pdb_conect_width /\ f_trunc s = true /\ f_kind s = KInt /\ f_fill s = sp
  | _ => False end /\
  (pdb_conect_start + (pdb_conect_chunk + 1) * pdb_conect_width <= 80)%nat.
Proof. vm_compute. repeat split; lia. Qed.
Print Assumptions compatible_extracted_conect.

(* GRO: with the coordinate width the reader detects from the dots (8 for the format
   written, see gro_precision_detected) the tables are compatible, resid/resname/atomname/
   atomid/x/y/z in argument order. *)
Theorem compatible_extracted_gro :
  option_map (map fst) (field_map gro_atom_w (with_precision 8 gro_atom_r)) = Some gro_atom_args /\
  option_map (map snd) (field_map gro_atom_w (with_precision 8 gro_atom_r)) = Some (seq 0 (List.length gro_atom_args)) /\
  layout_ok gro_atom_w = true.
Proof. vm_compute. repeat split. Qed.
Print Assumptions compatible_extracted_gro.

(* The bonds the PDB reader rebuilds from the CONECT records are exactly the bonds of the
   system, each once (from its lower-key end), never across molecules: serial numbers are
   injective, every neighbour appears in some chunk. *)
Theorem conect_roundtrip : forall ms, sys_wf ms ->
  forall mi u mj v,
  In ((mi, u), (mj, v)) (read_conects (assign ms 0 1) (conect_records ms)) <->
  (mi = mj /\ (u < v)%Z /\ exists m, nth_error ms mi = Some m /\ (In (u, v) (p_edges m) \/ In (v, u) (p_edges m))).
Proof. exact conect_roundtrip_lemma. Qed.
Print Assumptions conect_roundtrip.

(* non-vacuity / examples evaluated on the extracted formats: a fitting ATOM record, an
   overflowing one (serial 100000, resid 10000, long names, 5-digit coordinate) in which
   every other field is still in place, and the GRO precision detection *)
Example nonvacuous :
  let vs := [VInt 12345; VStr (s2l "CA"); VStr []; VStr (s2l "ALA"); VStr (s2l "A"); VInt 42; VStr [];
             VFix 1500; VFix (-12345); VFix 0; VFix 100; VFix 0; VStr (s2l "C"); VStr []]%Z in
  let big := [VInt 100000; VStr (s2l "ABCDEF"); VStr []; VStr (s2l "LONGRES"); VStr (s2l "A"); VInt 10000; VStr [];
              VFix 12345678; VFix (-12345); VFix 0; VFix 100; VFix 0; VStr (s2l "C"); VStr []]%Z in
  l2s (fmt_line pdb_atom_w vs)
    = "ATOM  12345 CA   ALA A  42       1.500 -12.345   0.000  1.00  0.00          C   "%string /\
  read_fields pdb_atom_r 0 (fmt_line pdb_atom_w vs) =
    [("atomid", WInt 12345); ("atomname", WStr (s2l "CA")); ("altloc", WStr []); ("resname", WStr (s2l "ALA"));
     ("chain", WStr (s2l "A")); ("resid", WInt 42); ("insertion_code", WStr []);
     ("x", WDec 1500 3); ("y", WDec (-12345) 3); ("z", WDec 0 3); ("occupancy", WDec 100 2);
     ("temp_factor", WDec 0 2); ("element", WStr (s2l "C")); ("charge", WStr [])]%string%Z /\
  l2s (fmt_line pdb_atom_w big)
    = "ATOM  00000 ABCD LON A0000    2345.678 -12.345   0.000  1.00  0.00          C   "%string /\
  gro_precision (fmt_line gro_atom_w [VInt 1; VStr (s2l "ALA"); VStr (s2l "BB"); VInt 1; VFix 1234; VFix (-5); VFix 99999999]%Z)
    = Some 8%nat.
Proof. vm_compute. repeat split. Qed.
