(* C16 — decimal plumbing: the value of a digit string as the standard library's parser sees it, concatenation,
   leading zeros, number of digits; then: a fixed-point field is read back as the number that was written. *)
From Coq Require Import List Bool ZArith NArith String Ascii DecimalString Decimal DecimalZ DecimalPos Lia.
From V Require Import C16.Model C16.Proofs.
Import ListNotations.
Open Scope N_scope.

Definition is_dig (c : ascii) : bool := (48 <=? N_of_ascii c) && (N_of_ascii c <=? 57).
Definition digit_of (c : ascii) : N := N_of_ascii c - 48.
Fixpoint dval (t : txt) : N := match t with [] => 0 | c :: r => digit_of c * 10 ^ N.of_nat (List.length r) + dval r end.

Lemma all_digits_forall t : all_digits t = true <-> Forall (fun c => is_dig c = true) t.
Proof. unfold all_digits. rewrite forallb_forall, Forall_forall. reflexivity. Qed.

Definition dcons (k : N) (d : uint) : uint :=
  match k with 0 => D0 d | 1 => D1 d | 2 => D2 d | 3 => D3 d | 4 => D4 d | 5 => D5 d | 6 => D6 d | 7 => D7 d | 8 => D8 d | _ => D9 d end.

Lemma of_uint_dcons k d : In k [0; 1; 2; 3; 4; 5; 6; 7; 8; 9] ->
  Pos.of_uint (dcons k d) = k * 10 ^ Unsigned.usize d + Pos.of_uint d /\ Unsigned.usize (dcons k d) = N.succ (Unsigned.usize d).
Proof.
  intros H. split; [|repeat (destruct H as [<-|H]; [reflexivity|]); destruct H].
  rewrite !Unsigned.of_uint_alt.
  assert (Hr : forall k0, In k0 [0; 1; 2; 3; 4; 5; 6; 7; 8; 9] -> rev (dcons k0 d) = revapp d (dcons k0 Nil) /\ Unsigned.of_lu (dcons k0 Nil) = k0).
  { intros k0 H0. repeat (destruct H0 as [<-|H0]; [split; reflexivity|]). destruct H0. }
  destruct (Hr k H) as [E1 E2]. rewrite E1, Unsigned.of_lu_revapp, E2. lia.
Qed.

(* a digit character in front of a parsed string *)
Lemma digit_cases c : is_dig c = true -> In (digit_of c) [0; 1; 2; 3; 4; 5; 6; 7; 8; 9] /\
  forall s d, NilEmpty.uint_of_string s = Some d -> NilEmpty.uint_of_string (String c s) = Some (dcons (digit_of c) d).
Proof.
  intros Hc. destruct c as [b0 b1 b2 b3 b4 b5 b6 b7].
  destruct b0, b1, b2, b3, b4, b5, b6, b7; try (cbv in Hc; discriminate Hc);
    (split; [cbv; tauto|intros s d Hs; cbn; rewrite Hs; reflexivity]).
Qed.

(* the parser's value of an all-digit string *)
Lemma uint_of_txt t : all_digits t = true ->
  exists d, NilEmpty.uint_of_string (l2s t) = Some d /\ Pos.of_uint d = dval t /\ Unsigned.usize d = N.of_nat (List.length t).
Proof.
  induction t as [|c r IH]; intros H.
  - exists Nil. repeat split.
  - cbn in H. apply andb_true_iff in H as [Hc Hr]. destruct (IH Hr) as (d & Hd & Hv & Hs).
    destruct (digit_cases c Hc) as [Hin Hstep]. exists (dcons (digit_of c) d). split; [|split].
    + unfold l2s in *. cbn. apply Hstep. exact Hd.
    + destruct (of_uint_dcons (digit_of c) d Hin) as [E _]. rewrite E, Hv, Hs. reflexivity.
    + destruct (of_uint_dcons (digit_of c) d Hin) as [_ E]. rewrite E, Hs. cbn [List.length]. lia.
Qed.

Lemma z_parse_digits t : all_digits t = true -> t <> [] -> z_parse t = Some (Z.of_N (dval t)).
Proof.
  intros Hd Hne. destruct (uint_of_txt t Hd) as (d & Hu & Hv & _). unfold z_parse.
  destruct t as [|c r]; [contradiction|]. unfold l2s in *. cbn [string_of_list_ascii] in *.
  unfold NilZero.int_of_string. cbn in Hd. apply andb_true_iff in Hd as [Hc _].
  assert (Hm : Ascii.eqb c "-" = false) by (destruct (Ascii.eqb_spec c "-") as [->|]; [cbv in Hc; discriminate|reflexivity]).
  rewrite Hm. unfold NilZero.uint_of_string. rewrite Hu. cbn. unfold Z.of_uint. rewrite Hv. reflexivity.
Qed.

Lemma dval_app t1 t2 : dval (t1 ++ t2) = dval t1 * 10 ^ N.of_nat (List.length t2) + dval t2.
Proof.
  induction t1 as [|c r IH].
  - change ([] ++ t2) with t2. cbn [dval]. rewrite N.mul_0_l. reflexivity.
  - change ((c :: r) ++ t2) with (c :: (r ++ t2)). cbn [dval]. rewrite IH, app_length, Nat2N.inj_add, N.pow_add_r. ring.
Qed.

Lemma zeros_digits k : all_digits (zeros k) = true /\ dval (zeros k) = 0 /\ List.length (zeros k) = k.
Proof.
  induction k as [|k (H1 & H2 & H3)]; [repeat split|].
  change (zeros (S k)) with ("0"%char :: zeros k). split; [|split].
  - change (all_digits ("0"%char :: zeros k)) with (true && all_digits (zeros k)). rewrite H1. reflexivity.
  - cbn [dval]. rewrite H2. change (digit_of "0") with 0. lia.
  - cbn [List.length]. rewrite H3. reflexivity.
Qed.

Lemma all_digits_app a b : all_digits (a ++ b) = all_digits a && all_digits b.
Proof. unfold all_digits. apply forallb_app. Qed.

(* the decimal spelling of a natural number *)
Lemma nstr_digits d : all_digits (s2l (NilEmpty.string_of_uint d)) = true.
Proof. unfold all_digits, s2l. induction d; cbn; try reflexivity; exact IHd. Qed.

Lemma z_str_nonneg z : (0 <= z)%Z -> all_digits (z_str z) = true /\ z_str z <> [] /\ dval (z_str z) = Z.to_N z.
Proof.
  intros Hz. assert (Hd : all_digits (z_str z) = true /\ z_str z <> []).
  { unfold z_str. destruct z as [|p|p]; [split; [reflexivity|discriminate]| |lia]. cbn [Z.to_int NilZero.string_of_int].
    assert (Hn : Pos.to_uint p <> Nil) by apply Unsigned.to_uint_nonnil.
    unfold NilZero.string_of_uint. destruct (Pos.to_uint p) eqn:E; try contradiction; rewrite <- E; (split; [apply nstr_digits|]);
      rewrite E; discriminate. }
  destruct Hd as [H1 H2]. split; [exact H1|]. split; [exact H2|].
  pose proof (z_parse_digits (z_str z) H1 H2) as Hp. rewrite z_parse_str in Hp. injection Hp as Hp. lia.
Qed.

(* no leading zero, hence at most p digits below 10^p *)
Lemma dval_lower c r : is_dig c = true -> digit_of c <> 0 -> 10 ^ N.of_nat (List.length r) <= dval (c :: r).
Proof. intros _ Hn. cbn [dval]. nia. Qed.

Lemma unorm_no_leading_zero d d' : unorm d = D0 d' -> d' = Nil.
Proof.
  induction d; cbn; intros H; try discriminate; try (injection H as <-; reflexivity); auto.
Qed.

(* the spelling of a positive number starts with a non-zero digit *)
Definition lead_nonzero (t : txt) : Prop := match t with c :: _ => is_dig c = true /\ digit_of c <> 0 | [] => False end.

Lemma pos_uint_norm p : unorm (Pos.to_uint p) = Pos.to_uint p.
Proof.
  pose proof (Unsigned.to_of (Pos.to_uint p)) as H. rewrite Unsigned.of_to in H. cbn in H. symmetry. exact H.
Qed.

Lemma pos_str_lead p : lead_nonzero (z_str (Z.pos p)).
Proof.
  unfold z_str. cbn [Z.to_int NilZero.string_of_int]. pose proof (pos_uint_norm p) as Hn.
  assert (Hz : Pos.to_uint p <> Nil) by apply Unsigned.to_uint_nonnil.
  unfold NilZero.string_of_uint. destruct (Pos.to_uint p) as [|d|d|d|d|d|d|d|d|d|d] eqn:E; try contradiction;
    try (cbn; split; [reflexivity|discriminate]).
  (* D0 d: impossible for a normalised numeral of a positive number *)
  exfalso. cbn [unorm] in Hn. apply unorm_no_leading_zero in Hn. subst d.
  pose proof (Unsigned.of_to p) as H0. rewrite E in H0. cbn in H0. discriminate H0.
Qed.

Lemma len_le_of_lt t p : all_digits t = true -> lead_nonzero t -> dval t < 10 ^ N.of_nat p -> (List.length t <= p)%nat.
Proof.
  intros Hd Hl Hv. destruct t as [|c r]; [destruct Hl|]. destruct Hl as [Hc Hn].
  pose proof (dval_lower c r Hc Hn) as Hlow. cbn [List.length].
  assert (Hlt : 10 ^ N.of_nat (List.length r) < 10 ^ N.of_nat p) by lia.
  apply N.pow_lt_mono_r_iff in Hlt; lia.
Qed.

Lemma z_str_len r p : (0 <= r < 10 ^ Z.of_nat p)%Z -> (0 < p)%nat -> (List.length (z_str r) <= p)%nat.
Proof.
  intros Hr Hp. destruct r as [|q|q]; [cbn; lia| |lia].
  destruct (z_str_nonneg (Z.pos q)) as (H1 & _ & H3); [lia|].
  apply len_le_of_lt; [exact H1|apply pos_str_lead|]. rewrite H3.
  apply N2Z.inj_lt. rewrite Z2N.id by lia. rewrite N2Z.inj_pow. cbn [Z.of_N]. rewrite nat_N_Z. lia.
Qed.

(* a digit is neither the decimal point nor the minus sign *)
Lemma dig_not_dot c : is_dig c = true -> Ascii.eqb c "." = false /\ Ascii.eqb c "-" = false.
Proof.
  intros H. split.
  - destruct (Ascii.eqb_spec c ".") as [->|]; [cbv in H; discriminate|reflexivity].
  - destruct (Ascii.eqb_spec c "-") as [->|]; [cbv in H; discriminate|reflexivity].
Qed.

Lemma split_dot_digits a : all_digits a = true -> split_dot a = (a, None) /\ forall b, split_dot (a ++ "."%char :: b) = (a, Some b).
Proof.
  induction a as [|c r IH]; intros H; [split; [reflexivity|intros b; reflexivity]|].
  change (all_digits (c :: r)) with (is_dig c && all_digits r) in H. apply andb_true_iff in H as [Hc Hr].
  destruct (IH Hr) as [I1 I2]. destruct (dig_not_dot c Hc) as [Hdot _]. split.
  - cbn [split_dot]. rewrite Hdot, I1. reflexivity.
  - intros b. change ((c :: r) ++ "."%char :: b) with (c :: (r ++ "."%char :: b)). cbn [split_dot]. rewrite Hdot, I2. reflexivity.
Qed.

(* the digits of the written number, read as one integer *)
Lemma digits_value q r p : (0 <= q)%Z -> (0 <= r < 10 ^ Z.of_nat p)%Z -> (0 < p)%nat ->
  let fp := pad_left0 p (z_str r) in
  all_digits fp = true /\ List.length fp = p /\ z_parse (z_str q ++ fp) = Some (q * 10 ^ Z.of_nat p + r)%Z.
Proof.
  intros Hq Hr Hp fp. destruct (z_str_nonneg q Hq) as (Q1 & Q2 & Q3). destruct (z_str_nonneg r) as (R1 & R2 & R3); [lia|].
  pose proof (z_str_len r p Hr Hp) as Hlen. destruct (zeros_digits (p - List.length (z_str r))) as (Z1 & Z2 & Z3).
  assert (F1 : all_digits fp = true) by (unfold fp, pad_left0; rewrite all_digits_app, Z1, R1; reflexivity).
  assert (F2 : List.length fp = p) by (unfold fp, pad_left0; rewrite app_length, Z3; lia).
  assert (F3 : dval fp = Z.to_N r) by (unfold fp, pad_left0; rewrite dval_app, Z2, R3; lia).
  split; [exact F1|]. split; [exact F2|].
  rewrite z_parse_digits.
  - f_equal. rewrite dval_app, F2, F3, Q3. rewrite N2Z.inj_add, N2Z.inj_mul, N2Z.inj_pow, !Z2N.id, nat_N_Z by lia. reflexivity.
  - rewrite all_digits_app, Q1, F1. reflexivity.
  - destruct (z_str q); [contradiction|discriminate].
Qed.

Lemma dec_parse_body q r p (neg : bool) : (0 <= q)%Z -> (0 <= r < 10 ^ Z.of_nat p)%Z ->
  let body := z_str q ++ (match p with O => [] | _ => "."%char :: pad_left0 p (z_str r) end) in
  let '(ip, fp) := split_dot body in
  let fp' := match fp with Some f => f | None => [] end in
  all_digits ip && all_digits fp' && negb (Nat.eqb (List.length ip + List.length fp') 0) = true /\
  List.length fp' = p /\
  z_parse (match ip ++ fp' with [] => ["0"%char] | x => x end) = Some (q * 10 ^ Z.of_nat p + r)%Z.
Proof.
  intros Hq Hr body. destruct (z_str_nonneg q Hq) as (Q1 & Q2 & Q3). destruct (split_dot_digits (z_str q) Q1) as [S1 S2].
  assert (Hlen : (0 < List.length (z_str q))%nat) by (destruct (z_str q); [contradiction|cbn; lia]).
  destruct p as [|p'].
  - unfold body. rewrite app_nil_r, S1. cbn [all_digits forallb]. rewrite Q1, app_nil_r. cbn [List.length]. split; [|split].
    + destruct (List.length (z_str q)); [lia|reflexivity].
    + reflexivity.
    + destruct (z_str q) eqn:E; [contradiction|]. rewrite <- E, z_parse_str. f_equal. cbn in Hr. lia.
  - unfold body. rewrite S2. destruct (digits_value q r (S p') Hq Hr) as (F1 & F2 & F3); [lia|].
    rewrite Q1, F1, F2. split; [|split].
    + rewrite Nat.add_succ_r. reflexivity.
    + reflexivity.
    + destruct (z_str q ++ pad_left0 (S p') (z_str r)) eqn:E; [|exact F3].
      apply app_eq_nil in E as [E _]. contradiction.
Qed.

Definition dec_core (neg : bool) (body : txt) : option (Z * nat) :=
  let '(ip, fp) := split_dot body in
  let fp' := match fp with Some f => f | None => [] end in
  if all_digits ip && all_digits fp' && negb (Nat.eqb (List.length ip + List.length fp') 0) then
    match z_parse (match ip ++ fp' with [] => ["0"%char] | x => x end) with
    | Some n => Some (if neg then (- n)%Z else n, List.length fp')
    | None => None
    end
  else None.

Lemma dec_parse_minus body : dec_parse ("-"%char :: body) = dec_core true body.
Proof. reflexivity. Qed.

Lemma dec_parse_plain c r : Ascii.eqb c "-" = false -> dec_parse (c :: r) = dec_core false (c :: r).
Proof. intros H. unfold dec_parse. rewrite H. reflexivity. Qed.

Lemma dec_core_value q r p neg : (0 <= q)%Z -> (0 <= r < 10 ^ Z.of_nat p)%Z ->
  dec_core neg (z_str q ++ (match p with O => [] | _ => "."%char :: pad_left0 p (z_str r) end))
  = Some (if neg then (- (q * 10 ^ Z.of_nat p + r))%Z else (q * 10 ^ Z.of_nat p + r)%Z, p).
Proof.
  intros Hq Hr. pose proof (dec_parse_body q r p neg Hq Hr) as HB. cbv zeta in HB. unfold dec_core.
  destruct (split_dot _) as [ip fp]. destruct HB as (B1 & B2 & B3). rewrite B1, B3, B2. reflexivity.
Qed.

(* a fixed-point number is read back as the number that was written, with its number of decimals *)
Lemma fix_roundtrip p u : dec_parse (render_fix p u) = Some (u, p).
Proof.
  unfold render_fix. set (a := Z.abs u). set (scale := (10 ^ Z.of_nat p)%Z).
  assert (Hs : (0 < scale)%Z) by (apply Z.pow_pos_nonneg; lia).
  assert (Hq : (0 <= a / scale)%Z) by (apply Z.div_pos; lia).
  assert (Hr : (0 <= a mod scale < scale)%Z) by (apply Z.mod_pos_bound; lia).
  assert (Ha : (a / scale * scale + a mod scale = a)%Z) by (pose proof (Z.div_mod a scale); lia).
  destruct (z_str_nonneg (a / scale) Hq) as (Q1 & Q2 & _).
  destruct (u <? 0)%Z eqn:Hneg.
  - change (["-"%char] ++ ?x) with ("-"%char :: x). rewrite dec_parse_minus, dec_core_value by assumption.
    f_equal. f_equal. fold scale. lia.
  - change ([] ++ ?x) with x. destruct (z_str (a / scale)) as [|c r] eqn:E; [contradiction|].
    change (all_digits (c :: r)) with (is_dig c && all_digits r) in Q1. apply andb_true_iff in Q1 as [Hc _].
    destruct (dig_not_dot c Hc) as [_ Hm]. change ((c :: r) ++ ?x) with (c :: (r ++ x)).
    rewrite dec_parse_plain by exact Hm. change (c :: (r ++ ?x)) with ((c :: r) ++ x). rewrite <- E.
    rewrite dec_core_value by assumption. f_equal. f_equal. fold scale. lia.
Qed.

(* ---- the field level ---- *)
Lemma digits_no_ws t : all_digits t = true -> Forall (fun c => is_ws c = false) t.
Proof.
  intros H. apply all_digits_forall in H. eapply Forall_impl; [|exact H]. intros c Hc.
  destruct c as [b0 b1 b2 b3 b4 b5 b6 b7]. destruct b0, b1, b2, b3, b4, b5, b6, b7; try (cbv in Hc; discriminate Hc); reflexivity.
Qed.

Lemma render_fix_chars p u : Forall (fun c => is_ws c = false) (render_fix p u) /\ render_fix p u <> [].
Proof.
  unfold render_fix. set (a := Z.abs u). set (scale := (10 ^ Z.of_nat p)%Z).
  assert (Hs : (0 < scale)%Z) by (apply Z.pow_pos_nonneg; lia).
  assert (Hq : (0 <= a / scale)%Z) by (apply Z.div_pos; lia).
  assert (Hr : (0 <= a mod scale < scale)%Z) by (apply Z.mod_pos_bound; lia).
  destruct (z_str_nonneg (a / scale) Hq) as (Q1 & Q2 & _). destruct (z_str_nonneg (a mod scale)) as (R1 & _ & _); [lia|].
  split.
  - apply Forall_app. split; [destruct (u <? 0)%Z; repeat constructor|]. apply Forall_app. split; [apply digits_no_ws, Q1|].
    destruct p; [constructor|]. constructor; [reflexivity|]. apply digits_no_ws. unfold pad_left0. rewrite all_digits_app, R1.
    destruct (zeros_digits (S p - List.length (z_str (a mod scale)))) as (Z1 & _). rewrite Z1. reflexivity.
  - intros E. apply app_eq_nil in E as [_ E]. apply app_eq_nil in E as [E _]. contradiction.
Qed.

Lemma fix_field_roundtrip_lemma s p u a b :
  f_fill s = sp -> f_kind s = KFix p -> (List.length (render_fix p u) <= f_width s)%nat ->
  convert RFloat (rep sp a ++ fmt_field s (VFix u) ++ rep sp b) = WDec u p.
Proof.
  intros Hf Hk Hl. unfold fmt_field. rewrite Hk. cbn [render].
  destruct (pad_sp_shape s (render_fix p u) Hf) as (a' & b' & E).
  rewrite truncate_fits by (rewrite pad_length; lia). rewrite E.
  unfold convert. destruct (render_fix_chars p u) as [Hc Hne].
  replace (rep sp a ++ (rep sp a' ++ render_fix p u ++ rep sp b') ++ rep sp b)
    with (rep sp (a + a') ++ render_fix p u ++ rep sp (b' + b))
    by (rewrite <- !rep_app, <- !app_assoc; reflexivity).
  rewrite strip_padded by (auto using forall_no_ws_ends).
  destruct (render_fix p u) eqn:Ez; [congruence|]. rewrite <- Ez, fix_roundtrip. reflexivity.
Qed.
