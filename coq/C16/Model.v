(* C16 — model of vermouth/truncating_formatter.py (TruncFormatter.format_field, l.39-108)
   and of fixed-column records as written by pdb.py:write_pdb_string / gro.py:write_gro
   and sliced by PDBParser._atom / read_gro. Text is a list of characters.
   Format strings and reader field tables are NOT written here: they are regenerated from
   the source into Extracted/Formats.v. *)
From Coq Require Import List Bool ZArith NArith String Ascii DecimalString Decimal DecimalZ Lia.
Import ListNotations.
Open Scope Z_scope.

Definition txt := list ascii.
Definition s2l (s : string) : txt := list_ascii_of_string s.
Definition sp : ascii := " "%char.

Inductive align := AL | AR | AC.
Inductive kind := KStr | KInt | KFix (prec : nat).
Record fspec := { f_fill : ascii; f_align : option align; f_width : nat; f_kind : kind; f_trunc : bool }.
(* a coordinate is carried as an integer number of 10^-prec units *)
Inductive value := VStr (s : txt) | VInt (z : Z) | VFix (units : Z).

Definition z_str (z : Z) : txt := s2l (NilZero.string_of_int (Z.to_int z)).

Fixpoint zeros (n : nat) : txt := match n with O => [] | S k => "0"%char :: zeros k end.
Definition pad_left0 (n : nat) (t : txt) : txt := zeros (n - List.length t) ++ t.

Definition render_fix (p : nat) (u : Z) : txt :=
  let a := Z.abs u in
  let scale := 10 ^ Z.of_nat p in
  (if u <? 0 then ["-"%char] else []) ++ z_str (a / scale)
  ++ (match p with O => [] | _ => "."%char :: pad_left0 p (z_str (a mod scale)) end).

Definition render (k : kind) (v : value) : txt :=
  match k, v with
  | KStr, VStr s => s
  | KInt, VInt z => z_str z
  | KFix p, VFix u => render_fix p u
  | _, VStr s => s              (* a mismatching value kind is a harness error; rendered as is *)
  | _, VInt z => z_str z
  | KStr, VFix u => z_str u
  | KInt, VFix u => z_str u
  end.

Definition default_align (k : kind) : align := match k with KStr => AL | _ => AR end.
Definition eff_align (s : fspec) : align := match f_align s with Some a => a | None => default_align (f_kind s) end.

Fixpoint rep (c : ascii) (n : nat) : txt := match n with O => [] | S k => c :: rep c k end.

(* str.format padding *)
Definition pad (s : fspec) (t : txt) : txt :=
  let n := (f_width s - List.length t)%nat in
  match eff_align s with
  | AL => t ++ rep (f_fill s) n
  | AR => rep (f_fill s) n ++ t
  | AC => rep (f_fill s) (n / 2) ++ t ++ rep (f_fill s) (n - n / 2)
  end.

(* the 't' option (l.88-106): keep the most significant end *)
Definition truncate (s : fspec) (t : txt) : txt :=
  let len := List.length t in
  if negb (f_trunc s) || Nat.eqb (f_width s) 0 || Nat.leb len (f_width s) then t
  else
    let overflow := (len - f_width s)%nat in
    match eff_align s with
    | AL => firstn (f_width s) t
    | AR => skipn overflow t
    | AC => firstn (f_width s) (skipn (overflow / 2) t)
    end.

Definition fmt_field (s : fspec) (v : value) : txt := truncate s (pad s (render (f_kind s) v)).

Inductive chunk := Lit (t : txt) | Fld (s : fspec).

Fixpoint fmt_line (cs : list chunk) (vs : list value) : txt :=
  match cs with
  | [] => []
  | Lit t :: r => t ++ fmt_line r vs
  | Fld s :: r => match vs with
                  | v :: vs' => fmt_field s v ++ fmt_line r vs'
                  | [] => fmt_line r []
                  end
  end.

Definition chunk_width (c : chunk) : nat := match c with Lit t => List.length t | Fld s => f_width s end.

(* column at which the i-th field (counting fields only) starts *)
Fixpoint field_offset (cs : list chunk) (i : nat) : nat :=
  match cs with
  | [] => 0
  | Lit t :: r => List.length t + field_offset r i
  | Fld s :: r => match i with O => 0 | S j => f_width s + field_offset r j end
  end.

Fixpoint nth_field (cs : list chunk) (i : nat) : option fspec :=
  match cs with
  | [] => None
  | Lit _ :: r => nth_field r i
  | Fld s :: r => match i with O => Some s | S j => nth_field r j end
  end.

Definition slice (start width : nat) (t : txt) : txt := firstn width (skipn start t).

(* ---- reading: fixed-width slices, strip, convert ---- *)
Definition is_ws (c : ascii) : bool :=
  match N_of_ascii c with 32%N | 9%N | 10%N | 11%N | 12%N | 13%N => true | _ => false end.
Fixpoint lstrip (t : txt) : txt := match t with c :: r => if is_ws c then lstrip r else t | [] => [] end.
Definition strip (t : txt) : txt := List.rev (lstrip (List.rev (lstrip t))).

Definition l2s (t : txt) : string := string_of_list_ascii t.
Definition z_parse (t : txt) : option Z := option_map Z.of_int (NilZero.int_of_string (l2s t)).

Inductive rkind := RStr | RInt | RFloat.
Record rfield := { r_name : string; r_kind : rkind; r_width : nat }.

(* a decimal literal [-]digits[.digits] as (units, number of decimals) *)
Fixpoint split_dot (t : txt) : txt * option txt :=
  match t with
  | [] => ([], None)
  | c :: r => if Ascii.eqb c "." then ([], Some r)
              else let '(a, b) := split_dot r in (c :: a, b)
  end.
Definition all_digits (t : txt) : bool :=
  forallb (fun c => (48 <=? N_of_ascii c)%N && (N_of_ascii c <=? 57)%N) t.
Definition dec_parse (t : txt) : option (Z * nat) :=
  let '(neg, body) := match t with c :: r => if Ascii.eqb c "-" then (true, r) else (false, t) | [] => (false, []) end in
  let '(ip, fp) := split_dot body in
  let fp' := match fp with Some f => f | None => [] end in
  if all_digits ip && all_digits fp' && negb (Nat.eqb (List.length ip + List.length fp') 0) then
    match z_parse (match ip ++ fp' with [] => ["0"%char] | x => x end) with
    | Some n => Some (if neg then - n else n, List.length fp')
    | None => None
    end
  else None.

Inductive rvalue := WStr (s : txt) | WInt (z : Z) | WDec (units : Z) (decimals : nat) | WErr.

Definition convert (k : rkind) (t : txt) : rvalue :=
  let s := strip t in
  match k with
  | RStr => WStr s
  | RInt => match s with [] => WInt 0 | _ => match z_parse s with Some z => WInt z | None => WErr end end
  | RFloat => match s with [] => WDec 0 0 | _ => match dec_parse s with Some (u, d) => WDec u d | None => WErr end end
  end.

(* PDBParser._atom (l.186-215) / read_gro (l.66-90): named fields are sliced at cumulative offsets *)
Fixpoint read_fields (fs : list rfield) (start : nat) (line : txt) : list (string * rvalue) :=
  match fs with
  | [] => []
  | f :: r =>
      (if String.eqb (r_name f) "" then [] else [(r_name f, convert (r_kind f) (slice start (r_width f) line))])
      ++ read_fields r (start + r_width f) line
  end.

(* ---- PDB file structure: serial numbers and CONECT records (write_pdb_string l.529-587,
        do_conect l.374-387) at the level of numbers ---- *)
(* molecules are given as lists of node keys in written order with their adjacency *)
Record pmol := { p_nodes : list Z; p_edges : list (Z * Z) }.

(* serials: consecutive from [start], one extra serial consumed by each TER *)
Fixpoint number_nodes (midx : nat) (ks : list Z) (s : Z) : list ((nat * Z) * Z) :=
  match ks with [] => [] | k :: ks' => ((midx, k), s) :: number_nodes midx ks' (s + 1) end.

Fixpoint assign (ms : list pmol) (midx : nat) (start : Z) : list ((nat * Z) * Z) :=
  match ms with
  | [] => []
  | m :: r => number_nodes midx (p_nodes m) start
              ++ assign r (S midx) (start + Z.of_nat (List.length (p_nodes m)) + 1)
  end.

Fixpoint lookup (tbl : list ((nat * Z) * Z)) (mi : nat) (k : Z) : option Z :=
  match tbl with
  | [] => None
  | ((mj, j), s) :: r => if Nat.eqb mi mj && Z.eqb j k then Some s else lookup r mi k
  end.

Fixpoint chunks4 (fuel : nat) (l : list Z) : list (list Z) :=
  match fuel, l with
  | _, [] => []
  | O, _ => [l]
  | S f, _ => firstn 4 l :: chunks4 f (skipn 4 l)
  end.

Definition neighbours (m : pmol) (k : Z) : list Z :=
  flat_map (fun e => if Z.eqb (fst e) k then [snd e] else if Z.eqb (snd e) k then [fst e] else []) (p_edges m).
