(* C16 — whole-file models on top of the extracted record formats:
   write_pdb_string (pdb.py l.505-587) and write_gro (gro.py l.118-180), and the
   decidable statement of the round-trip property evaluated on what the real readers return. *)
From Coq Require Import List Bool ZArith NArith QArith Qabs String Ascii Lia.
From V Require Import Base.Sort C16.Model C16.Spec.
From V Require Import Extracted.Formats.
Import ListNotations.
Open Scope Z_scope.

Record patom := {
  pa_key : Z; pa_atomid : option Z;
  pa_name : txt; pa_resname : txt; pa_chain : txt; pa_icode : txt; pa_element : txt;
  pa_resid : Z; pa_x : Z; pa_y : Z; pa_z : Z }.        (* coordinates in units of 10^-3 of the file's length unit *)
Record fmol := { fm_atoms : list patom; fm_edges : list (Z * Z) }.

Definition atomid_leb (a b : patom) : bool :=
  match pa_atomid a, pa_atomid b with
  | Some x, Some y => x <=? y | Some _, None => true | None, Some _ => false | None, None => true end.
Definition sorted_atoms (m : fmol) : list patom := sort atomid_leb (fm_atoms m).

Definition pdb_atom_values (serial : Z) (a : patom) : list value :=
  [VInt serial; VStr (pa_name a); VStr []; VStr (pa_resname a); VStr (pa_chain a); VInt (pa_resid a);
   VStr (pa_icode a); VFix (pa_x a); VFix (pa_y a); VFix (pa_z a); VFix 100; VFix 0; VStr (pa_element a); VStr []].

Fixpoint pdb_atom_lines (l : list patom) (serial : Z) : list txt :=
  match l with [] => [] | a :: r => fmt_line pdb_atom_w (pdb_atom_values serial a) :: pdb_atom_lines r (serial + 1) end.

Definition pdb_ter_line (serial : Z) (a : patom) : txt :=
  fmt_line pdb_ter_w [VInt serial; VStr (pa_resname a); VStr (pa_chain a); VInt (pa_resid a); VStr (pa_icode a)].

Fixpoint pdb_coord_lines (ms : list fmol) (serial : Z) : list txt :=
  match ms with
  | [] => []
  | m :: r =>
      let n := Z.of_nat (List.length (fm_atoms m)) in
      pdb_atom_lines (sorted_atoms m) serial
      ++ (match List.rev (sorted_atoms m) with a :: _ => [pdb_ter_line (serial + n) a] | [] => [] end)
      ++ pdb_coord_lines r (serial + n + 1)
  end.

Definition to_pmol_sorted (m : fmol) : pmol := {| p_nodes := map pa_key (sorted_atoms m); p_edges := fm_edges m |}.
Definition to_pmol_order (m : fmol) : pmol := {| p_nodes := map pa_key (fm_atoms m); p_edges := fm_edges m |}.

(* CONECT records: serials come from the sorted (written) order, the loop runs over the
   molecule's own node order *)
Definition pdb_conect_records (ms : list fmol) : list (list Z) :=
  let tbl := assign (map to_pmol_sorted ms) 0 1 in
  flat_map (fun im =>
     flat_map (fun k =>
        match lookup tbl (fst im) k with
        | Some s0 => let todo := serials_above tbl (fst im) (to_pmol_order (snd im)) k in
                     map (cons s0) (chunks4 (List.length todo) todo)
        | None => [] end) (map pa_key (fm_atoms (snd im)))) (enumerate ms 0).

Definition conect_line (rec : list Z) : txt :=
  pdb_conect_prefix ++ flat_map (fun s => fmt_line pdb_conect_num [VInt s]) rec.

Definition write_pdb_model (ms : list fmol) : list txt :=
  pdb_coord_lines ms 1 ++ map conect_line (pdb_conect_records ms) ++ [pdb_end].

(* GRO: node insertion order, one running atom number *)
Fixpoint gro_atom_lines (l : list patom) (n : Z) : list txt :=
  match l with
  | [] => []
  | a :: r => fmt_line gro_atom_w [VInt (pa_resid a); VStr (pa_resname a); VStr (pa_name a); VInt n;
                                   VFix (pa_x a); VFix (pa_y a); VFix (pa_z a)] :: gro_atom_lines r (n + 1)
  end.
Definition write_gro_model (title : txt) (ms : list fmol) : list txt :=
  let atoms := flat_map fm_atoms ms in
  title :: z_str (Z.of_nat (List.length atoms)) :: gro_atom_lines atoms 1.

(* ---- what the readers returned (canonicalised by the harness) ---- *)
Record ratomf := {
  ra_atomid : Z; ra_name : txt; ra_resname : txt; ra_chain : txt; ra_icode : txt; ra_resid : Z;
  ra_x : Q; ra_y : Q; ra_z : Q }.     (* coordinates in the file's length unit (exact value of the double) *)
Record rmol := { rm_atoms : list ratomf; rm_edges : list (Z * Z) }.   (* edges between positions in rm_atoms *)

Definition txt_eqb (a b : txt) : bool :=
  (fix go a b := match a, b with [], [] => true | x :: r, y :: s => Ascii.eqb x y && go r s | _, _ => false end) a b.

Definition fits_str (w : nat) (t : txt) : bool :=
  Nat.leb (List.length t) w
  && match t with [] => true | c :: _ => negb (is_ws c) && negb (is_ws (last t c)) end.
Definition fits_int (w : nat) (z : Z) : bool := Nat.leb (List.length (z_str z)) w.
Definition fits_fix (w p : nat) (u : Z) : bool := Nat.leb (List.length (render_fix p u)) w.

(* |q - u/1000| <= 1e-9 *)
Definition coord_close (u : Z) (q : Q) : bool :=
  Qle_bool (Qabs (q - (u # 1000))) (1 # 1000000000).

Definition pos_of (k : Z) (l : list patom) : option Z :=
  (fix go l i := match l with [] => None | a :: r => if Z.eqb (pa_key a) k then Some i else go r (i + 1) end) l 0.

Definition edge_mem (e : Z * Z) (l : list (Z * Z)) : bool :=
  existsb (fun f => (Z.eqb (fst e) (fst f) && Z.eqb (snd e) (snd f)) || (Z.eqb (fst e) (snd f) && Z.eqb (snd e) (fst f))) l.

(* the PDB widths of the fields the property names (the extracted layout decides what fits) *)
Definition w_of (cs : list chunk) (i : nat) : nat := match nth_field cs i with Some s => f_width s | None => 0%nat end.

Definition atom_back_ok (cs : list chunk) (iname ires ichain iresid icode : option nat) (ix : nat) (a : patom) (r : ratomf) : bool :=
  let chk_s := fun (i : option nat) v w => match i with Some j => negb (fits_str (w_of cs j) v) || txt_eqb v w | None => true end in
  chk_s iname (pa_name a) (ra_name r)
  && chk_s ires (pa_resname a) (ra_resname r)
  && chk_s ichain (pa_chain a) (ra_chain r)
  && chk_s icode (pa_icode a) (ra_icode r)
  && (match iresid with Some j => negb (fits_int (w_of cs j) (pa_resid a)) || Z.eqb (pa_resid a) (ra_resid r) | None => true end)
  && (negb (fits_fix (w_of cs ix) 3 (pa_x a)) || coord_close (pa_x a) (ra_x r))
  && (negb (fits_fix (w_of cs (S ix)) 3 (pa_y a)) || coord_close (pa_y a) (ra_y r))
  && (negb (fits_fix (w_of cs (S (S ix))) 3 (pa_z a)) || coord_close (pa_z a) (ra_z r)).

Fixpoint forall2b {A B} (f : A -> B -> bool) (a : list A) (b : list B) : bool :=
  match a, b with [], [] => true | x :: r, y :: s => f x y && forall2b f r s | _, _ => false end.

Definition total_serials (ms : list fmol) : Z :=
  fold_left (fun acc m => acc + Z.of_nat (List.length (fm_atoms m)) + 1) ms 0.

(* PDB round trip: same division into molecules, atoms in written order with every fitting
   field unchanged, and (when the serials fit five digits) exactly the same bonds *)
Definition pdb_roundtrip_okb (ms : list fmol) (back : list rmol) : bool :=
  forall2b (fun m r =>
     forall2b (atom_back_ok pdb_atom_w (Some 1%nat) (Some 3%nat) (Some 4%nat) (Some 5%nat) (Some 6%nat) 7%nat)
              (sorted_atoms m) (rm_atoms r)
     && (negb (total_serials ms <=? 99999)
         || (forallb (fun e => match pos_of (fst e) (sorted_atoms m), pos_of (snd e) (sorted_atoms m) with
                               | Some i, Some j => edge_mem (i, j) (rm_edges r) | _, _ => false end) (fm_edges m)
             && forallb (fun e => existsb (fun f => match pos_of (fst f) (sorted_atoms m), pos_of (snd f) (sorted_atoms m) with
                                                    | Some i, Some j => edge_mem e [(i, j)] | _, _ => false end) (fm_edges m))
                        (rm_edges r))))
    ms back.

(* GRO round trip: one molecule with all atoms in node order *)
Definition gro_roundtrip_okb (ms : list fmol) (back : list ratomf) : bool :=
  forall2b (fun a r =>
      (negb (fits_str (w_of gro_atom_w 2) (pa_name a)) || txt_eqb (pa_name a) (ra_name r))
      && (negb (fits_str (w_of gro_atom_w 1) (pa_resname a)) || txt_eqb (pa_resname a) (ra_resname r))
      && (negb (fits_int (w_of gro_atom_w 0) (pa_resid a)) || Z.eqb (pa_resid a) (ra_resid r))
      && (negb (fits_fix (w_of gro_atom_w 4) 3 (pa_x a)) || coord_close (pa_x a) (ra_x r))
      && (negb (fits_fix (w_of gro_atom_w 5) 3 (pa_y a)) || coord_close (pa_y a) (ra_y r))
      && (negb (fits_fix (w_of gro_atom_w 6) 3 (pa_z a)) || coord_close (pa_z a) (ra_z r)))
    (flat_map fm_atoms ms) back
  && forall2b (fun n r => negb (fits_int (w_of gro_atom_w 3) n) || Z.eqb n (ra_atomid r))
              (map (fun i => Z.of_nat i + 1) (seq 0 (List.length (flat_map fm_atoms ms)))) back.
