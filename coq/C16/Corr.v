(* C16 — case type and the two boolean functions evaluated on generated cases. *)
From Coq Require Import List Bool ZArith NArith QArith String Ascii.
From V Require Import C16.Model C16.Spec C16.Files.
From V Require Import Extracted.Formats.
Import ListNotations.

Fixpoint list_eqb {A} (f : A -> A -> bool) (a b : list A) : bool :=
  match a, b with [], [] => true | x :: r, y :: s => f x y && list_eqb f r s | _, _ => false end.

Inductive case :=
| CField (s : fspec) (v : value) (impl : string)          (* TruncFormatter on one field *)
| CPdb (ms : list fmol) (impl_lines : list string) (back : list rmol)
| CGro (title : string) (ms : list fmol) (impl_lines : list string) (back : list ratomf).

Definition corr (k : case) : bool :=
  match k with
  | CField s v impl => txt_eqb (fmt_field s v) (s2l impl)
  | CPdb ms lines _ => list_eqb txt_eqb (write_pdb_model ms) (map s2l lines)
  | CGro title ms lines _ => list_eqb txt_eqb (write_gro_model (s2l title) ms) (map s2l lines)
  end.

Definition prop (k : case) : bool :=
  match k with
  | CField s v impl =>
      negb (f_trunc s && Nat.ltb 0 (f_width s)) || Nat.eqb (String.length impl) (f_width s)
  | CPdb ms lines back => pdb_roundtrip_okb ms back
  | CGro _ ms lines back => gro_roundtrip_okb ms back
  end.
