(* C16 — compatibility of a writer layout with a reader field table (decidable; evaluated
   on the tables regenerated from the source), and the structural model of PDB serial
   numbers / CONECT records. *)
From Coq Require Import List Bool ZArith NArith String Ascii Lia.
From V Require Import C16.Model.
Import ListNotations.

Inductive col := CLit (c : ascii) | CFld (i : nat).

Fixpoint columns (cs : list chunk) (i : nat) : list col :=
  match cs with
  | [] => []
  | Lit t :: r => map CLit t ++ columns r i
  | Fld s :: r => repeat (CFld i) (f_width s) ++ columns r (S i)
  end.

Definition is_blank_col (c : col) : bool := match c with CLit a => Ascii.eqb a sp | CFld _ => false end.
Fixpoint drop_blank (l : list col) : list col :=
  match l with c :: r => if is_blank_col c then drop_blank r else l | [] => [] end.

Definition kinds_agree (k : kind) (r : rkind) : bool :=
  match k, r with KStr, RStr | KInt, RInt | KFix _, RFloat => true | _, _ => false end.

(* the reader slice [o, o+w) consists of blank literal columns around exactly all the
   columns of one writer field, whose kind agrees; returns that field's index *)
Definition covered_field (W : list chunk) (o w : nat) (rk : rkind) : option nat :=
  let cols := firstn w (skipn o (columns W 0)) in
  if negb (Nat.eqb (List.length cols) w) then None else
  match drop_blank cols with
  | CFld i :: _ =>
      match nth_field W i with
      | Some s =>
          let core := firstn (f_width s) (drop_blank cols) in
          let rest := skipn (f_width s) (drop_blank cols) in
          if forallb (fun c => match c with CFld j => Nat.eqb i j | _ => false end) core
             && Nat.eqb (List.length core) (f_width s)
             && forallb is_blank_col rest
             && kinds_agree (f_kind s) rk
             && Ascii.eqb (f_fill s) sp
          then Some i else None
      | None => None
      end
  | _ => None
  end.

Fixpoint field_map_from (W : list chunk) (R : list rfield) (o : nat) : option (list (string * nat)) :=
  match R with
  | [] => Some []
  | f :: r =>
      match field_map_from W r (o + r_width f) with
      | None => None
      | Some rest =>
          if String.eqb (r_name f) "" then Some rest
          else match covered_field W o (r_width f) (r_kind f) with
               | Some i => Some ((r_name f, i) :: rest)
               | None => None end
      end
  end.

Definition layout_okb (cs : list chunk) : bool :=
  forallb (fun c => match c with Lit _ => true | Fld s => f_trunc s && Nat.ltb 0 (f_width s) end) cs.

Definition field_map (W : list chunk) (R : list rfield) : option (list (string * nat)) :=
  if layout_okb W then field_map_from W R 0 else None.

(* read_gro detects the width of the coordinate fields from the dots of the first atom line
   (l.60-63): first '.' at or after column 25, then the next one *)
Fixpoint find_dot (t : txt) (from : nat) (i : nat) : option nat :=
  match t with
  | [] => None
  | c :: r => if Nat.leb from i && Ascii.eqb c "." then Some i else find_dot r from (S i)
  end.
Definition gro_precision (line : txt) : option nat :=
  match find_dot line 25 0 with
  | Some d1 => match find_dot line (S d1) 0 with Some d2 => Some (Nat.sub d2 d1) | None => None end
  | None => None
  end.
Definition with_precision (p : nat) (R : list rfield) : list rfield :=
  map (fun f => if Nat.eqb (r_width f) 0 then {| r_name := r_name f; r_kind := r_kind f; r_width := p |} else f) R.

(* ---- PDB serial numbers and CONECT records ---- *)
Fixpoint insertZ (x : Z) (l : list Z) : list Z :=
  match l with [] => [x] | y :: r => if Z.leb x y then x :: y :: r else y :: insertZ x r end.
Definition sortZ (l : list Z) : list Z := fold_right insertZ [] l.

Fixpoint enumerate {A} (l : list A) (i : nat) : list (nat * A) :=
  match l with [] => [] | x :: r => (i, x) :: enumerate r (S i) end.

Definition serials_above (tbl : list ((nat * Z) * Z)) (mi : nat) (m : pmol) (k : Z) : list Z :=
  sortZ (flat_map (fun n => if Z.ltb k n then match lookup tbl mi n with Some s => [s] | None => [] end else [])
                  (neighbours m k)).

(* the CONECT records written: [serial of node; up to 4 serials of neighbours with larger key] *)
Definition conect_records (ms : list pmol) : list (list Z) :=
  let tbl := assign ms 0 1 in
  flat_map (fun im =>
     flat_map (fun k =>
        match lookup tbl (fst im) k with
        | Some s0 => let todo := serials_above tbl (fst im) (snd im) k in
                     map (cons s0) (chunks4 (List.length todo) todo)
        | None => [] end) (p_nodes (snd im))) (enumerate ms 0).

Fixpoint rlookup (tbl : list ((nat * Z) * Z)) (s : Z) : option (nat * Z) :=
  match tbl with [] => None | (mk, s') :: r => if Z.eqb s s' then Some mk else rlookup r s end.

(* the edges the reader adds for CONECT records (do_conect / _do_single_conect) *)
Definition read_conects (tbl : list ((nat * Z) * Z)) (recs : list (list Z)) : list ((nat * Z) * (nat * Z)) :=
  flat_map (fun rec =>
     match rec with
     | [] => []
     | a0 :: rest =>
         match rlookup tbl a0 with
         | None => []
         | Some n0 => flat_map (fun a => match rlookup tbl a with Some n => [(n0, n)] | None => [] end) rest
         end
     end) recs.
