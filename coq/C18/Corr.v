(* C18 — case type and the two boolean functions evaluated on generated cases. *)
From Coq Require Import List Bool ZArith QArith Qabs.
From V Require Import C15.Model C18.Model.
Import ListNotations.

Fixpoint list_eqb {A B} (f : A -> B -> bool) (a : list A) (b : list B) : bool :=
  match a, b with [], [] => true | x :: r, y :: s => f x y && list_eqb f r s | _, _ => false end.
Definition opt_eqbZ (a b : option Z) : bool :=
  match a, b with Some x, Some y => Z.eqb x y | None, None => true | _, _ => false end.

Definition atom_eqb (a b : atom) : bool :=
  Z.eqb (a_key a) (a_key b) && Bool.eqb (a_is_bb a) (a_is_bb b) && Z.eqb (a_resid a) (a_resid b)
  && Z.eqb (a_old_resid a) (a_old_resid b) && Z.eqb (a_resname a) (a_resname b) && Z.eqb (a_chain a) (a_chain b)
  && opt_eqbZ (a_cg a) (a_cg b) && Z.eqb (a_pos a) (a_pos b) && Qeq_bool (a_mass a) (a_mass b)
  && Qeq_bool (a_charge a) (a_charge b) && opt_eqbZ (a_go_type a) (a_go_type b).

Inductive case :=
| CSites (atoms : list atom) (impl_atoms : list atom) (impl_vsn : list (Z * Z)) (impl_atomtypes : list Z)
| CContacts (rs : list residue) (re : list (Z * Z)) (G : gparams) (dists : list (Z * Z * Q)) (cs : list contact)
            (impl_pairs : list (Z * Z * Q * Q))       (* nonbond_params: type a, type b, sigma, epsilon *)
            (impl_excl : list (Z * Z)) (eps : Q).

Definition dist_of (dists : list (Z * Z * Q)) (a b : Z) : Q :=
  match find (fun e => (Z.eqb (fst (fst e)) a && Z.eqb (snd (fst e)) b) || (Z.eqb (fst (fst e)) b && Z.eqb (snd (fst e)) a)) dists with
  | Some e => snd e | None => 0 end.

(* sigma = d / 2^(1/6):  |d^6 - 2 sigma^6| <= 1e-9 d^6 *)
Definition pow6 (x : Q) : Q := x * x * x * x * x * x.
Definition sigma_ok (d s : Q) : bool :=
  Qle_bool (Qabs (pow6 d - 2 * pow6 s)) ((1 # 1000000000) * pow6 d).

Definition corr (k : case) : bool :=
  match k with
  | CSites atoms ia ivsn iat =>
      list_eqb atom_eqb (atoms_after atoms) ia
      && list_eqb (fun a b => Z.eqb (fst a) (fst b) && Z.eqb (snd a) (snd b)) (vsn_entries atoms) ivsn
      && list_eqb Z.eqb (map (fun v => a_key (v_atom v)) (add_virtual_sites atoms)) iat
  | CContacts rs re G dists cs ipairs iexcl eps =>
      let sel := contact_selector rs re G (dist_of dists) cs in
      list_eqb (fun r p => let '(ta, tb, s, e) := p in
                           Z.eqb (c_ta r) ta && Z.eqb (c_tb r) tb && sigma_ok (c_d r) s && Qeq_bool e eps) sel ipairs
      && list_eqb (fun r x => Z.eqb (c_bba r) (fst x) && Z.eqb (c_bbb r) (snd x)) sel iexcl
  end.

(* the property on the implementation's output, from the statement *)
Definition site_ok (atoms : list atom) (bb v : atom) : bool :=
  negb (existsb (fun a => Z.eqb (a_key a) (a_key v)) atoms)
  && Z.eqb (a_resid v) (a_resid bb) && Z.eqb (a_old_resid v) (a_old_resid bb) && Z.eqb (a_resname v) (a_resname bb)
  && Z.eqb (a_chain v) (a_chain bb) && Z.eqb (a_pos v) (a_pos bb)
  && Qeq_bool (a_mass v) 0 && Qeq_bool (a_charge v) 0 && opt_eqbZ (a_go_type v) (Some (a_resid bb)).

Definition pair_listed (cs : list contact) (ia ca ib cb : Z) : bool :=
  existsb (fun c => let '(x, y, z, w) := c in Z.eqb x ia && Z.eqb y ca && Z.eqb z ib && Z.eqb w cb) cs.

Definition prop (k : case) : bool :=
  match k with
  | CSites atoms ia ivsn iat =>
      let n := List.length atoms in
      let bbs := filter a_is_bb atoms in
      let news := skipn n ia in
      list_eqb atom_eqb (firstn n ia) atoms                       (* placed after all existing atoms, nothing changed *)
      && list_eqb (fun bb v => site_ok atoms bb v) bbs news        (* exactly one per backbone particle, in order *)
      && list_eqb (fun bb x => Z.eqb (snd x) (a_key bb)) bbs ivsn  (* constructed from that particle *)
      && list_eqb (fun v x => Z.eqb (fst x) (a_key v)) news ivsn
  | CContacts rs re G dists cs ipairs iexcl eps =>
      (* every residue pair listed in both directions that passes the filters has exactly one pair
         potential (either orientation) with the right sigma and depth, nothing else has one *)
      let typed := flat_map (fun c => match resolve rs re G (dist_of dists) c with Some r => [(c, r)] | None => [] end) cs in
      forallb (fun cr =>
         let '((ia, ca, ib, cb), r) := cr in
         let both := pair_listed cs ib cb ia ca in
         let hits := filter (fun p => let '(ta, tb, _, _) := p in
                                      (Z.eqb ta (c_ta r) && Z.eqb tb (c_tb r)) || (Z.eqb ta (c_tb r) && Z.eqb tb (c_ta r))) ipairs in
         if both && negb (Z.eqb (c_ta r) (c_tb r))
         then match hits with [(_, _, s, e)] => sigma_ok (c_d r) s && Qeq_bool e eps | _ => false end
         else match hits with [] => true | _ => Z.eqb (c_ta r) (c_tb r) end) typed
      && forallb (fun p => let '(ta, tb, _, _) := p in
                           existsb (fun cr => (Z.eqb (c_ta (snd cr)) ta && Z.eqb (c_tb (snd cr)) tb)) typed) ipairs
      && Nat.eqb (List.length ipairs) (List.length iexcl)
  end.
