(* C18 — property theorems only. *)
From Coq Require Import List Bool ZArith QArith.
From V Require Import C15.Model C15.Proofs C18.Model C18.Proofs.
Import ListNotations.

(* Exactly one virtual site per backbone particle, in backbone order, constructed from that
   particle; fresh pairwise distinct keys; appended after all existing atoms ([atoms_after] is
   [atoms ++ sites] by definition); same residue identity and position (shared array), zero
   mass and charge, type <moltype>_<resid>. *)
Theorem one_site_per_backbone : forall atoms,
  let sites := add_virtual_sites atoms in
  map v_from sites = map a_key (filter a_is_bb atoms) /\
  (forall v, In v sites -> ~ In (a_key (v_atom v)) (map a_key atoms)) /\
  NoDup (map (fun v => a_key (v_atom v)) sites) /\
  Forall2 (fun a v => a_resid (v_atom v) = a_resid a /\ a_old_resid (v_atom v) = a_old_resid a /\
                      a_resname (v_atom v) = a_resname a /\ a_chain (v_atom v) = a_chain a /\
                      a_pos (v_atom v) = a_pos a /\ a_mass (v_atom v) = 0%Q /\ a_charge (v_atom v) = 0%Q /\
                      a_go_type (v_atom v) = Some (a_resid a) /\ v_from v = a_key a)
          (filter a_is_bb atoms) sites.
Proof. exact sites_lemma. Qed.
Print Assumptions one_site_per_backbone.

Theorem site_types_are_unique : forall atoms,
  NoDup (map a_resid (filter a_is_bb atoms)) ->
  NoDup (map (fun v => a_go_type (v_atom v)) (add_virtual_sites atoms)).
Proof. exact site_types_unique. Qed.
Print Assumptions site_types_are_unique.

(* The loop over the contact map emits a contact exactly when it passes the filters and its
   reverse occurred among the EARLIER contacts that passed them — for a contact list without
   repeated entries: a pair potential exists iff the contact is listed in both directions and
   passes the (symmetric) filters, once per unordered pair. *)
Theorem go_pair_iff : forall (C K : Type) (elig : C -> bool) (key : C -> K) (rev : K -> K) (keqb : K -> K -> bool),
  (forall a b, keqb a b = true <-> a = b) -> (forall k, rev (rev k) = k) ->
  forall cs, NoDup (map key (filter elig cs)) ->
  sym_loop elig key rev keqb cs [] = emitted_spec elig key rev keqb cs [].
Proof. intros C K elig key rev keqb H1 H2. exact (sym_loop_is_spec elig key rev keqb H1 H2). Qed.
Print Assumptions go_pair_iff.

(* the separation filter is symmetric, so (A,B) passes iff (B,A) passes *)
Theorem separation_symmetric : forall re k a b, reachb re k a b = reachb re k b a.
Proof. exact reachb_sym. Qed.
Print Assumptions separation_symmetric.

Example nonvacuous :
  let A := fun k bb rid cg => {| a_key := k; a_is_bb := bb; a_resid := rid; a_old_resid := rid; a_resname := 0; a_chain := 0;
                                 a_cg := cg; a_pos := k; a_mass := 72; a_charge := 0; a_go_type := None |} in
  let atoms := [A 4 true 1 (Some 1); A 9 false 1 (Some 2); A 2 true 2 (Some 3); A 7 true 3 None]%Z in
  vsn_entries atoms = [(10, 4); (11, 2); (12, 7)]%Z /\
  map (fun v => a_cg (v_atom v)) (add_virtual_sites atoms) = [Some 4; Some 5; Some 6]%Z /\
  sym_loop (fun _ : Z * Z => true) (fun c => c) (fun c => (snd c, fst c))
           (fun a b => Z.eqb (fst a) (fst b) && Z.eqb (snd a) (snd b))
           [(1, 2); (3, 4); (2, 1); (5, 6); (4, 3); (6, 7)]%Z [] = [(2, 1); (4, 3)]%Z.
Proof. vm_compute. repeat split. Qed.
