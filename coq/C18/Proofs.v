From Coq Require Import List Bool ZArith QArith Lia.
From V Require Import C15.Model C18.Model.
Import ListNotations.

(* ---------- virtual sites ---------- *)
Definition site_from (a : atom) (key cg : Z) : vsite :=
  {| v_atom := {| a_key := key; a_is_bb := false; a_resid := a_resid a; a_old_resid := a_old_resid a;
                  a_resname := a_resname a; a_chain := a_chain a; a_cg := Some cg; a_pos := a_pos a;
                  a_mass := 0; a_charge := 0; a_go_type := Some (a_resid a) |};
     v_from := a_key a |}.

Fixpoint number_sites (bbs : list atom) (key cg : Z) : list vsite :=
  match bbs with [] => [] | a :: r => site_from a key cg :: number_sites r (key + 1) (cg + 1) end.

Lemma make_sites_spec atoms : forall k c, make_sites atoms k c = number_sites (filter a_is_bb atoms) k c.
Proof.
  induction atoms as [|a r IH]; intros k c; cbn; [reflexivity|].
  destruct (a_is_bb a); cbn; [f_equal; apply IH|apply IH].
Qed.

Lemma number_sites_from bbs : forall k c, map v_from (number_sites bbs k c) = map a_key bbs.
Proof. induction bbs as [|a r IH]; intros k c; cbn; [reflexivity|]. f_equal. apply IH. Qed.

Lemma number_sites_keys bbs : forall k c x, In x (map (fun v => a_key (v_atom v)) (number_sites bbs k c)) ->
  (k <= x < k + Z.of_nat (List.length bbs))%Z.
Proof.
  induction bbs as [|a r IH]; intros k c x; cbn [number_sites map In List.length]; [tauto|].
  intros [<-|H]; [cbn; lia|]. apply IH in H. lia.
Qed.

Lemma number_sites_keys_nodup bbs : forall k c, NoDup (map (fun v => a_key (v_atom v)) (number_sites bbs k c)).
Proof.
  induction bbs as [|a r IH]; intros k c; cbn; constructor; [|apply IH].
  intros H. apply number_sites_keys in H. lia.
Qed.

Lemma zmax_ub l : forall d, (d <= zmax l d)%Z /\ forall x, In x l -> (x <= zmax l d)%Z.
Proof.
  induction l as [|y l IH]; intros d; cbn; [split; [lia|tauto]|].
  destruct (IH (Z.max d y)) as [H1 H2]. split; [lia|]. intros x [<-|Hx]; [lia|auto].
Qed.

Lemma sites_lemma atoms :
  let sites := add_virtual_sites atoms in
  (* exactly one site per backbone bead, in order, constructed from it *)
  map v_from sites = map a_key (filter a_is_bb atoms) /\
  (* the new keys are fresh and pairwise distinct *)
  (forall v, In v sites -> ~ In (a_key (v_atom v)) (map a_key atoms)) /\
  NoDup (map (fun v => a_key (v_atom v)) sites) /\
  (* each carries the residue identity and position of its bead, zero mass and charge, and
     the type <moltype>_<resid> *)
  Forall2 (fun a v => a_resid (v_atom v) = a_resid a /\ a_old_resid (v_atom v) = a_old_resid a /\
                      a_resname (v_atom v) = a_resname a /\ a_chain (v_atom v) = a_chain a /\
                      a_pos (v_atom v) = a_pos a /\ a_mass (v_atom v) = 0%Q /\ a_charge (v_atom v) = 0%Q /\
                      a_go_type (v_atom v) = Some (a_resid a) /\ v_from v = a_key a)
          (filter a_is_bb atoms) sites.
Proof.
  unfold add_virtual_sites. destruct atoms as [|a0 r]; [cbn; split; [reflexivity|]; split; [intros v []|]; split; constructor|].
  set (atoms := a0 :: r). set (mk := zmax (map a_key atoms) (a_key a0)).
  set (mc := match flat_map _ atoms with [] => 0%Z | c :: _ => _ end).
  cbv zeta. rewrite make_sites_spec. split; [apply number_sites_from|]. split; [|split].
  - intros v Hv Hin. assert (Hk : In (a_key (v_atom v)) (map (fun v => a_key (v_atom v)) (number_sites (filter a_is_bb atoms) (mk + 1) (mc + 1)))).
    { apply in_map_iff. exists v. auto. }
    apply number_sites_keys in Hk. destruct (zmax_ub (map a_key atoms) (a_key a0)) as [_ Hub]. specialize (Hub _ Hin).
    fold mk in Hub. lia.
  - apply number_sites_keys_nodup.
  - generalize (mk + 1)%Z (mc + 1)%Z. induction (filter a_is_bb atoms) as [|a l IH]; intros k c; cbn; constructor.
    + cbn. repeat split; reflexivity.
    + apply IH.
Qed.

(* distinct residue numbers of the backbone beads give distinct site types *)
Lemma site_types_unique atoms :
  NoDup (map a_resid (filter a_is_bb atoms)) ->
  NoDup (map (fun v => a_go_type (v_atom v)) (add_virtual_sites atoms)).
Proof.
  unfold add_virtual_sites. destruct atoms as [|a0 r]; [constructor|]. rewrite make_sites_spec.
  generalize (zmax (map a_key (a0 :: r)) (a_key a0) + 1)%Z.
  generalize (match flat_map (fun a => match a_cg a with Some c => [c] | None => [] end) (a0 :: r) with
              | [] => 0%Z | c :: _ => zmax (flat_map (fun a => match a_cg a with Some c => [c] | None => [] end) (a0 :: r)) c end + 1)%Z.
  induction (filter a_is_bb (a0 :: r)) as [|a l IH]; intros c k H; cbn; [constructor|].
  inversion H as [|? ? Ha Hl]; subst. constructor; [|apply IH; exact Hl].
  intros Hin. apply Ha. clear -Hin. revert k c Hin.
  assert (G : forall l k c, In (Some (a_resid a)) (map (fun v => a_go_type (v_atom v)) (number_sites l k c)) -> In (a_resid a) (map a_resid l)).
  { clear. intros l0. induction l0 as [|b l0 IH0]; intros k c; cbn [number_sites map In]; [intros []|].
    intros [H|H]; [left; cbn in H; congruence|right; eapply IH0; eauto]. }
  intros k c. apply G.
Qed.

(* ---------- the symmetric-contact loop ---------- *)
Section LoopSpec.
Context {C K : Type} (elig : C -> bool) (key : C -> K) (rev : K -> K) (keqb : K -> K -> bool).
Hypothesis keqb_spec : forall a b, keqb a b = true <-> a = b.
Hypothesis rev_inv : forall k, rev (rev k) = k.

(* a contact is emitted iff it is eligible and its reverse occurred among the EARLIER eligible contacts *)
Fixpoint emitted_spec (cs : list C) (seen : list K) : list C :=
  match cs with
  | [] => []
  | c :: r =>
      if elig c then
        (if existsb (keqb (rev (key c))) seen then [c] else []) ++ emitted_spec r (seen ++ [key c])
      else emitted_spec r seen
  end.

Lemma existsb_in k l : existsb (keqb k) l = true <-> In k l.
Proof.
  rewrite existsb_exists. split.
  - intros (x & Hx & H). apply keqb_spec in H. subst. exact Hx.
  - intros H. exists k. split; [exact H|apply keqb_spec; reflexivity].
Qed.

Lemma sym_loop_spec cs : forall stored seen,
  NoDup (seen ++ map key (filter elig cs)) ->
  (forall k, In k stored -> In k seen) ->
  (forall k, In k seen -> ~ In k stored -> In (rev k) stored) ->
  sym_loop elig key rev keqb cs stored = emitted_spec cs seen.
Proof.
  induction cs as [|c r IH]; intros stored seen Hnd Hsub Hemit; cbn [sym_loop emitted_spec]; [reflexivity|].
  destruct (elig c) eqn:E; [|apply IH; auto; cbn in Hnd; rewrite E in Hnd; exact Hnd].
  cbn in Hnd. rewrite E in Hnd. cbn in Hnd.
  assert (Hfresh : ~ In (key c) seen).
  { apply NoDup_remove_2 in Hnd. intros H. apply Hnd. apply in_or_app. left. exact H. }
  assert (Hnd' : NoDup ((seen ++ [key c]) ++ map key (filter elig r))).
  { rewrite <- app_assoc. exact Hnd. }
  assert (Hagree : existsb (keqb (rev (key c))) stored = existsb (keqb (rev (key c))) seen).
  { destruct (existsb (keqb (rev (key c))) stored) eqn:E1, (existsb (keqb (rev (key c))) seen) eqn:E2; try reflexivity.
    - apply existsb_in in E1. apply Hsub in E1. apply existsb_in in E1. congruence.
    - apply existsb_in in E2. exfalso.
      assert (Hns : ~ In (rev (key c)) stored) by (intros H; apply existsb_in in H; congruence).
      specialize (Hemit _ E2 Hns). rewrite rev_inv in Hemit. apply Hfresh. apply Hsub. exact Hemit. }
  rewrite Hagree. destruct (existsb (keqb (rev (key c))) seen) eqn:E2.
  - cbn. f_equal. apply IH; [exact Hnd'| |].
    + intros k Hk. apply in_or_app. left. apply Hsub. exact Hk.
    + intros k Hk Hns. apply in_app_iff in Hk as [Hk|[<-|[]]]; [apply Hemit; assumption|].
      apply existsb_in in Hagree. exact Hagree.
  - cbn. apply IH; [exact Hnd'| |].
    + intros k Hk. apply in_app_iff in Hk as [Hk|Hk]; apply in_or_app; [left; apply Hsub; exact Hk|right; exact Hk].
    + intros k Hk Hns. apply in_app_iff in Hk as [Hk|[<-|[]]].
      * apply in_or_app. left. apply Hemit; [exact Hk|]. intros H. apply Hns. apply in_or_app. left. exact H.
      * exfalso. apply Hns. apply in_or_app. right. left. reflexivity.
Qed.

Lemma sym_loop_is_spec cs :
  NoDup (map key (filter elig cs)) -> sym_loop elig key rev keqb cs [] = emitted_spec cs [].
Proof. intros H. apply sym_loop_spec; [exact H|intros k []|intros k []]. Qed.
End LoopSpec.

(* the residue-graph separation is symmetric *)
Lemma nbrs_sym re a c : In c (nbrs re a) -> In a (nbrs re c).
Proof.
  unfold nbrs. rewrite !in_flat_map. intros ([x y] & Hin & H). exists (x, y). split; [exact Hin|]. cbn in *.
  apply in_app_iff in H as [H|H]; apply in_or_app.
  - destruct (Z.eqb_spec x a) as [->|]; [|destruct H]. destruct H as [<-|[]]. right. rewrite Z.eqb_refl. left; reflexivity.
  - destruct (Z.eqb_spec y a) as [->|]; [|destruct H]. destruct H as [<-|[]]. left. rewrite Z.eqb_refl. left; reflexivity.
Qed.

From V Require Import C15.Proofs.

Lemma walk_mono re k a b : walk re k a b -> walk re (S k) a b.
Proof. induction 1; [constructor|eapply walk_step; eauto]. Qed.

Lemma walk_snoc re k a b z : walk re k a b -> In z (nbrs re b) -> walk re (S k) a z.
Proof.
  induction 1 as [k a|k a c b Hc Hw IH]; intros Hz.
  - eapply walk_step; [exact Hz|constructor].
  - eapply walk_step; [exact Hc|]. apply IH. exact Hz.
Qed.

Lemma walk_sym re k a b : walk re k a b -> walk re k b a.
Proof.
  induction 1 as [k a|k a c b Hc Hw IH]; [constructor|].
  eapply walk_snoc; [exact IH|]. apply nbrs_sym. exact Hc.
Qed.

Lemma reachb_sym re k a b : reachb re k a b = reachb re k b a.
Proof.
  destruct (reachb re k a b) eqn:E1, (reachb re k b a) eqn:E2; try reflexivity.
  - apply reachb_walk in E1. apply walk_sym in E1. apply reachb_walk in E1. congruence.
  - apply reachb_walk in E2. apply walk_sym in E2. apply reachb_walk in E2. congruence.
Qed.
