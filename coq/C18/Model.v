(* C18 — model of vermouth/rcsu/go_vs_includes.py:VirtualSiteCreator.add_virtual_sites (l.72-140)
   and vermouth/rcsu/go_structure_bias.py:contact_selector / compute_go_interaction (l.150-262).
   Distances between backbone beads are inputs (exact rationals of numpy's result); the residue
   graph separation reuses the bounded-walk test of C15. *)
From Coq Require Import List Bool ZArith QArith String.
From V Require Import C15.Model.
Import ListNotations.

(* ---------- virtual sites ---------- *)
Record atom := {
  a_key : Z; a_is_bb : bool;               (* atomname == go_anchor_bead *)
  a_resid : Z; a_old_resid : Z; a_resname : Z; a_chain : Z; a_cg : option Z;
  a_pos : Z;                               (* identity of the position array (shared by reference) *)
  a_mass : Q; a_charge : Q;
  a_go_type : option Z }.                  (* Some r: atype = <moltype>_<r>; None: any other bead type *)

Record vsite := { v_atom : atom; v_from : Z }.     (* the new atom and the backbone bead it is constructed from *)

Fixpoint zmax (l : list Z) (d : Z) : Z := match l with [] => d | x :: r => zmax r (Z.max d x) end.

Fixpoint make_sites (atoms : list atom) (next_key next_cg : Z) : list vsite :=
  match atoms with
  | [] => []
  | a :: r =>
      if a_is_bb a then
        {| v_atom := {| a_key := next_key; a_is_bb := false; a_resid := a_resid a; a_old_resid := a_old_resid a;
                        a_resname := a_resname a; a_chain := a_chain a; a_cg := Some next_cg; a_pos := a_pos a;
                        a_mass := 0; a_charge := 0; a_go_type := Some (a_resid a) |};
           v_from := a_key a |} :: make_sites r (next_key + 1) (next_cg + 1)
      else make_sites r next_key next_cg
  end.

Definition add_virtual_sites (atoms : list atom) : list vsite :=
  match atoms with
  | [] => []
  | a0 :: _ =>
      let maxkey := zmax (map a_key atoms) (a_key a0) in
      let cgs := flat_map (fun a => match a_cg a with Some c => [c] | None => [] end) atoms in
      let maxcg := match cgs with [] => 0%Z | c :: _ => zmax cgs c end in
      make_sites atoms (maxkey + 1) (maxcg + 1)
  end.

(* the molecule afterwards: old atoms, then the sites; the virtual_sitesn entries *)
Definition atoms_after (atoms : list atom) : list atom := atoms ++ map v_atom (add_virtual_sites atoms).
Definition vsn_entries (atoms : list atom) : list (Z * Z) := map (fun v => (a_key (v_atom v), v_from v)) (add_virtual_sites atoms).

(* ---------- contacts ---------- *)
(* The loop over the contact map, abstractly: an eligible contact whose reverse was stored
   before is emitted (symmetric contact), otherwise it is stored. *)
Section Loop.
Context {C K : Type} (elig : C -> bool) (key : C -> K) (rev : K -> K) (keqb : K -> K -> bool).

Fixpoint sym_loop (cs : list C) (stored : list K) : list C :=
  match cs with
  | [] => []
  | c :: r =>
      if elig c then
        if existsb (keqb (rev (key c))) stored then c :: sym_loop r stored
        else sym_loop r (stored ++ [key c])
      else sym_loop r stored
  end.
End Loop.

Record residue := {
  r_id : Z; r_chain : option Z; r_old_resid : option Z;      (* common values of the residue's atoms *)
  r_bb : option Z;                                           (* first backbone bead of the residue *)
  r_go_type : option Z }.                                    (* first atom whose type is a Go type matching the contact *)

Record gparams := { g_short : Q; g_long : Q; g_sep : nat }.

Definition contact := (Z * Z * Z * Z)%type.     (* resid A, chain A, resid B, chain B *)

(* _chain_id_to_resnode: the LAST residue with that (chain, old resid) wins (dict overwrite) *)
Fixpoint find_res (rs : list residue) (chain resid : Z) (acc : option residue) : option residue :=
  match rs with
  | [] => acc
  | r :: rest =>
      find_res rest chain resid
        (match r_chain r, r_old_resid r with
         | Some c, Some i => if Z.eqb c chain && Z.eqb i resid then Some r else acc
         | _, _ => acc end)
  end.

Record resolved := { c_a : residue; c_b : residue; c_d : Q; c_ta : Z; c_tb : Z; c_bba : Z; c_bbb : Z }.

(* everything a contact needs before the symmetric test; None: skipped (or would raise) *)
Definition resolve (rs : list residue) (re : list (Z * Z)) (G : gparams) (dist : Z -> Z -> Q) (c : contact) : option resolved :=
  let '(ia, ca, ib, cb) := c in
  match find_res rs ca ia None, find_res rs cb ib None with
  | Some ra, Some rb =>
      if reachb re (g_sep G) (r_id ra) (r_id rb) then None else
      match r_bb ra, r_bb rb with
      | Some ba, Some bb =>
          let d := dist ba bb in
          if Qltb (g_short G) d && Qltb d (g_long G) then
            match r_go_type ra, r_go_type rb with
            | Some ta, Some tb => Some {| c_a := ra; c_b := rb; c_d := d; c_ta := ta; c_tb := tb; c_bba := ba; c_bbb := bb |}
            | _, _ => None end
          else None
      | _, _ => None end
  | _, _ => None
  end.

Definition gkey := (Z * Z * Q)%type.
Definition gkeqb (a b : gkey) : bool :=
  Z.eqb (fst (fst a)) (fst (fst b)) && Z.eqb (snd (fst a)) (snd (fst b)) && Qeq_bool (snd a) (snd b).

Definition contact_selector (rs : list residue) (re : list (Z * Z)) (G : gparams) (dist : Z -> Z -> Q) (cs : list contact)
  : list resolved :=
  sym_loop (fun r : resolved => true) (fun r => (c_ta r, c_tb r, c_d r)) (fun k => (snd (fst k), fst (fst k), snd k)) gkeqb
           (flat_map (fun c => match resolve rs re G dist c with Some r => [r] | None => [] end) cs) [].
