(* C17 — property theorems only. *)
From Coq Require Import List Bool ZArith String Ascii Lia.
From V Require Import Base.Sort C17.Model C17.Proofs C17.Bridge C17.Rule C17.Assign.
From V Require Import Extracted.Dssp.
Import ListNotations.

(* The slicing loop of AnnotateResidues.run_system is direct indexing: the k-th element of the
   (reconciled) sequence goes to every atom of the k-th residue of the SELECTED molecules in
   system order; unselected molecules receive nothing ([expected] says so by definition). *)
Theorem kth_to_kth : forall (V : Type) ms (seq : list V) out,
  run_system ms seq = Some out -> exists seq', reconciled ms seq seq' /\ out = expected ms seq' 0.
Proof. intros V. exact (@run_system_spec V). Qed.
Print Assumptions kth_to_kth.

Theorem assignment_is_indexing : forall (V : Type) ms (s : list V) off,
  (off + total_selected ms <= List.length s)%nat -> assign_loop ms (skipn off s) = Some (expected ms s off).
Proof. intros V. exact (@assign_loop_spec V). Qed.
Print Assumptions assignment_is_indexing.

(* A length that fits none of the documented cases is an error, not a shifted assignment. *)
Theorem mismatch_is_error : forall (V : Type) ms (seq : list V),
  List.length seq <> total_selected ms -> List.length seq <> 1%nat ->
  (forall sm, In sm (filter fst ms) -> List.length (residues (snd sm)) <> List.length seq) ->
  run_system ms seq = None.
Proof. intros V. exact (@mismatch_is_error_lemma V). Qed.
Print Assumptions mismatch_is_error.

(* the tables regenerated from the source keep lengths and dot positions *)
Theorem patterns_well_formed : forallb pat_ok pats = true.
Proof. vm_compute. reflexivity. Qed.
Print Assumptions patterns_well_formed.

(* DSSP -> Martini preserves the length, for EVERY string ... *)
Theorem convert_length : forall seq out,
  convert ss_cg pats seq = Some out -> List.length out = List.length seq.
Proof. intros seq out. apply convert_length_lemma. exact patterns_well_formed. Qed.
Print Assumptions convert_length.

(* ... and maps every non-helical class by the fixed table alone, for EVERY string. *)
Theorem convert_nonhelix_by_table : forall seq out,
  convert ss_cg pats seq = Some out ->
  forall i s c, nth_error seq i = Some s -> lookup ss_cg s = Some c -> Ascii.eqb c Hc = false ->
  nth_error out i = Some c.
Proof. intros seq out. apply convert_nonhelix_lemma. exact patterns_well_formed. Qed.
Print Assumptions convert_nonhelix_by_table.

(* Each maximal helical run is rewritten by the documented start/end/short-helix rule, for DSSP strings of EVERY
   length: the nine patterns regenerated from the source are of the shapes .h. / .h / h. ; on a string of dot-terminated
   segments str.replace and the "while pattern in s" loop act segment by segment (C17/General.v), and their composition
   on a run of n H is the documented text (3..3 up to four, 13332, 113322, 1113222, 1111 H.. 2222 from eight on). *)
Theorem convert_run_rule : forall seq, convert ss_cg pats seq = convert_spec ss_cg seq.
Proof. exact convert_run_rule_lemma. Qed.
Print Assumptions convert_run_rule.

(* An independent kernel computation of the same equality over all 2^16 - 1 helix/non-helix patterns up to length
   BOUND (= 15), kept as a cross-check of the general proof. *)
Theorem convert_run_rule_bounded_crosscheck : forall seq,
  (List.length seq <= BOUND)%nat -> convert ss_cg pats seq = convert_spec ss_cg seq.
Proof. exact convert_run_rule_bounded_lemma. Qed.
Print Assumptions convert_run_rule_bounded_crosscheck.

(* non-vacuity *)
Example nonvacuous :
  let A := fun k r => {| a_key := k; a_res := r |} in
  let m1 := [A 5 10; A 2 11; A 7 10; A 3 12]%Z in      (* residues by lowest key: 11, 12, 10 *)
  let m2 := [A 0 20; A 1 21]%Z in
  run_system [(false, m1); (true, m2); (true, m1)] ["a"; "b"; "x"; "y"; "z"]%string
  = Some [[(5, None); (2, None); (7, None); (3, None)];
          [(0, Some "a"); (1, Some "b")];
          [(5, Some "z"); (2, Some "x"); (7, Some "z"); (3, Some "y")]]%Z%string /\
  option_map string_of_list_ascii (convert ss_cg pats (s2l "CHHHHHHHHHHEGGGTHS"))
  = Some "C1111HH2222E333T3S"%string.
Proof. vm_compute. split; reflexivity. Qed.
