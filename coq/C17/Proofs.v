From Coq Require Import List Bool ZArith String Ascii Lia.
From V Require Import Base.Sort C17.Model.
From V Require Import Extracted.Dssp.
Import ListNotations.

Definition pats : list (txt * txt) := map (fun pr => (s2l (fst pr), s2l (snd pr))) helix_patterns.

(* ---------- general facts about the character-level rewriting ---------- *)
Definition dotmask (t : txt) : list bool := map (fun c => Ascii.eqb c dot) t.

Definition pat_ok (pr : txt * txt) : bool :=
  Nat.eqb (List.length (fst pr)) (List.length (snd pr))
  && negb (Nat.eqb (List.length (fst pr)) 0)
  && forallb (fun ab => Bool.eqb (Ascii.eqb (fst ab) dot) (Ascii.eqb (snd ab) dot)) (combine (fst pr) (snd pr)).

Lemma is_prefix_firstn p : forall s, is_prefix p s = true -> firstn (List.length p) s = p.
Proof.
  induction p as [|a p IH]; intros s H; cbn; [reflexivity|].
  destruct s as [|b s]; cbn in H; [discriminate|]. apply andb_prop in H as [H1 H2].
  apply Ascii.eqb_eq in H1. subst. cbn. f_equal. apply IH. exact H2.
Qed.

Lemma dotmask_app a b : dotmask (a ++ b) = dotmask a ++ dotmask b.
Proof. apply map_app. Qed.

Lemma pat_ok_mask p r : pat_ok (p, r) = true -> dotmask p = dotmask r /\ List.length p = List.length r /\ p <> [].
Proof.
  unfold pat_ok; cbn. intros H. apply andb_prop in H as [H H3]. apply andb_prop in H as [H1 H2].
  apply Nat.eqb_eq in H1. apply negb_true_iff in H2. apply Nat.eqb_neq in H2.
  split; [|split; [exact H1|destruct p; [cbn in H2; congruence|discriminate]]].
  clear H2. revert r H1 H3. induction p as [|a p IH]; intros [|b r] H1 H3; cbn in *; try discriminate; [reflexivity|].
  apply andb_prop in H3 as [Ha Hr]. apply Bool.eqb_prop in Ha. rewrite Ha. f_equal. apply IH; [lia|exact Hr].
Qed.

Lemma replace_pass_mask fuel p r : pat_ok (p, r) = true -> forall s,
  dotmask (replace_pass fuel p r s) = dotmask s.
Proof.
  intros Hok. destruct (pat_ok_mask p r Hok) as (Hm & Hl & Hne).
  induction fuel as [|f IH]; intros s; cbn [replace_pass]; [reflexivity|].
  destruct s as [|c s'].
  - destruct p; [congruence|reflexivity].
  - destruct (is_prefix p (c :: s')) eqn:E.
    + rewrite dotmask_app, IH, <- Hm. rewrite <- (is_prefix_firstn p _ E) at 1.
      unfold dotmask. rewrite <- map_app, firstn_skipn. reflexivity.
    + cbn. f_equal. apply IH.
Qed.

Lemma replace_until_mask fuel p r : pat_ok (p, r) = true -> forall s s',
  replace_until fuel p r s = Some s' -> dotmask s' = dotmask s.
Proof.
  intros Hok. induction fuel as [|f IH]; intros s s'; cbn [replace_until].
  - destruct (contains p s); [discriminate|]. intros [= <-]. reflexivity.
  - destruct (contains p s); [|intros [= <-]; reflexivity].
    intros H. rewrite (IH _ _ H). apply replace_pass_mask; exact Hok.
Qed.

Lemma rewrite_all_mask ps : forallb pat_ok ps = true -> forall w w',
  rewrite_all ps w = Some w' -> dotmask w' = dotmask w.
Proof.
  induction ps as [|[p r] ps IH]; intros Hok w w'; cbn [rewrite_all]; [intros [= <-]; reflexivity|].
  cbn in Hok. apply andb_prop in Hok as [H1 H2].
  destruct (replace_until _ p r w) as [w1|] eqn:E; [|discriminate].
  intros H. rewrite (IH H2 _ _ H). eapply replace_until_mask; eauto.
Qed.

Lemma dotmask_length a b : dotmask a = dotmask b -> List.length a = List.length b.
Proof. intros H. apply (f_equal (@List.length bool)) in H. unfold dotmask in H. rewrite !map_length in H. exact H. Qed.

Lemma map_opt_length {A B} (f : A -> option B) l : forall r, map_opt f l = Some r -> List.length r = List.length l.
Proof.
  induction l as [|x l IH]; cbn; intros r; [intros [= <-]; reflexivity|].
  destruct (f x); [|discriminate]. destruct (map_opt f l) as [ys|]; [|discriminate].
  intros [= <-]. cbn. f_equal. apply IH. reflexivity.
Qed.

Lemma unflank_mask w cg :
  dotmask w = dotmask (dot :: cg ++ [dot]) -> dotmask (unflank w) = dotmask cg.
Proof.
  unfold unflank. destruct w as [|a w]; [discriminate|]. cbn [tl dotmask map]. intros H. injection H as _ H.
  fold (dotmask w) in H. fold (dotmask (cg ++ [dot])) in H.
  revert w H. induction cg as [|c cg IH]; intros w H.
  - cbn in H. destruct w as [|x [|y w]]; cbn in *; try discriminate. reflexivity.
  - destruct w as [|x w]; [discriminate|]. cbn in H. injection H as Hx H.
    destruct w as [|y w]; [destruct cg; discriminate|]. cbn [removelast].
    change (dotmask (x :: removelast (y :: w)) = dotmask (c :: cg)). cbn [dotmask map]. rewrite Hx. f_equal.
    apply IH. exact H.
Qed.

Lemma wildcard_length cg : List.length (wildcard cg) = List.length cg.
Proof. apply map_length. Qed.

Lemma wildcard_mask cg : dotmask (wildcard cg) = map (fun c => negb (Ascii.eqb c Hc)) cg.
Proof.
  unfold dotmask, wildcard. rewrite map_map. apply map_ext. intros c.
  destruct (Ascii.eqb c Hc); reflexivity.
Qed.

(* length is preserved *)
Lemma convert_length_lemma tbl seq out :
  forallb pat_ok pats = true -> convert tbl pats seq = Some out -> List.length out = List.length seq.
Proof.
  intros Hok. unfold convert. destruct (map_opt (lookup tbl) seq) as [cg|] eqn:E; [|discriminate].
  destruct (rewrite_all pats _) as [w|] eqn:R; [|discriminate]. intros [= <-].
  pose proof (rewrite_all_mask pats Hok _ _ R) as M.
  assert (M2 : dotmask (unflank w) = dotmask (wildcard cg)).
  { apply unflank_mask. exact M. }
  unfold merge. rewrite map_length, combine_length. apply dotmask_length in M2. rewrite M2, wildcard_length.
  rewrite Nat.min_id. apply map_opt_length in E. exact E.
Qed.

(* a position whose class is not helical is translated by the table alone *)
Lemma merge_nonhelix w cg : dotmask w = map (fun c => negb (Ascii.eqb c Hc)) cg ->
  forall i c, nth_error cg i = Some c -> Ascii.eqb c Hc = false -> nth_error (merge w cg) i = Some c.
Proof.
  revert w. induction cg as [|x cg IH]; intros w H i c Hi Hc0; [destruct i; discriminate|].
  destruct w as [|a w]; [discriminate|]. cbn in H. injection H as Ha H. unfold merge. cbn [combine map].
  destruct i as [|i]; cbn in *.
  - injection Hi as ->. rewrite Hc0 in Ha. cbn in Ha. rewrite Ha. reflexivity.
  - apply IH; assumption.
Qed.

Lemma convert_nonhelix_lemma tbl seq out :
  forallb pat_ok pats = true -> convert tbl pats seq = Some out ->
  forall i s c, nth_error seq i = Some s -> lookup tbl s = Some c -> Ascii.eqb c Hc = false ->
  nth_error out i = Some c.
Proof.
  intros Hok. unfold convert. destruct (map_opt (lookup tbl) seq) as [cg|] eqn:E; [|discriminate].
  destruct (rewrite_all pats _) as [w|] eqn:R; [|discriminate]. intros [= <-] i s c Hs Hl Hc0.
  pose proof (rewrite_all_mask pats Hok _ _ R) as M.
  assert (M2 : dotmask (unflank w) = dotmask (wildcard cg)) by (apply unflank_mask; exact M).
  rewrite wildcard_mask in M2. apply (merge_nonhelix _ _ M2); [|exact Hc0].
  clear -E Hs Hl. revert cg i E Hs. induction seq as [|x seq IH]; intros cg i E Hs; [destruct i; discriminate|].
  cbn in E. destruct (lookup tbl x) eqn:Ex; [|discriminate]. destruct (map_opt (lookup tbl) seq) eqn:Em; [|discriminate].
  injection E as <-. destruct i; cbn in *; [congruence|]. eapply IH; eauto.
Qed.

(* ---------- the run rule: bridge between the character-level code and the rule ---------- *)
Fixpoint all_words (n : nat) : list txt :=
  match n with
  | O => [[]]
  | S k => flat_map (fun w => [Hc :: w; dot :: w]) (all_words k)
  end.

Definition rewrite_c (w : txt) : option txt := option_map unflank (rewrite_all pats (dot :: w ++ [dot])).

Definition txt_eqb (a b : txt) : bool :=
  (fix go a b := match a, b with [], [] => true | x :: r, y :: s => Ascii.eqb x y && go r s | _, _ => false end) a b.

Definition bridge_ok (w : txt) : bool :=
  match rewrite_c w with Some o => txt_eqb o (by_runs w 0) | None => false end.

