(* C17 — the assignment loop of AnnotateResidues.run_system equals direct indexing. *)
From Coq Require Import List Bool ZArith Lia.
From V Require Import Base.Sort C17.Model.
Import ListNotations.

(* the k-th element of the (expanded) sequence goes to every atom of the k-th residue of the
   selected molecules in system order; unselected molecules get nothing *)
Fixpoint expected {V} (ms : list (bool * list atom)) (s : list V) (off : nat) : list (list (Z * option V)) :=
  match ms with
  | [] => []
  | (sel, m) :: r =>
      if sel then
        map (fun a => (a_key a, match index_of (a_res a) (residues m) 0 with
                                | Some i => nth_error s (off + i) | None => None end)) m
        :: expected r s (off + List.length (residues m))
      else map (fun a => (a_key a, None)) m :: expected r s off
  end.

Definition total_selected (ms : list (bool * list atom)) : nat :=
  fold_right Nat.add 0 (map (fun sm => List.length (residues (snd sm))) (filter fst ms)).

Lemma index_of_lt x l : forall i j, index_of x l i = Some j -> i <= j < i + List.length l.
Proof.
  induction l as [|y l IH]; intros i j; cbn; [discriminate|].
  destruct (Z.eqb x y); [intros [= <-]; lia|]. intros H. apply IH in H. lia.
Qed.

Lemma nth_error_firstn' {V} (l : list V) : forall n i, i < n -> nth_error (firstn n l) i = nth_error l i.
Proof.
  induction l as [|x l IH]; intros n i Hi; [rewrite firstn_nil; reflexivity|].
  destruct n; [lia|]. destruct i; cbn; [reflexivity|]. apply IH. lia.
Qed.

Lemma nth_error_skipn' {V} (l : list V) : forall off i, nth_error (skipn off l) i = nth_error l (off + i).
Proof.
  induction l as [|x l IH]; intros off i; [rewrite skipn_nil; destruct i; destruct (off + _); reflexivity|].
  destruct off; cbn; [reflexivity|]. apply IH.
Qed.

Lemma nth_error_firstn_skipn {V} (s : list V) off n i :
  i < n -> nth_error (firstn n (skipn off s)) i = nth_error s (off + i).
Proof. intros Hi. rewrite nth_error_firstn' by exact Hi. apply nth_error_skipn'. Qed.

Lemma skipn_skipn' {V} (l : list V) : forall a b, skipn a (skipn b l) = skipn (b + a) l.
Proof.
  induction l as [|x l IH]; intros a b; [rewrite !skipn_nil; reflexivity|].
  destruct b; cbn; [reflexivity|]. apply IH.
Qed.

Lemma annotate_slice {V} (m : list atom) (s : list V) off :
  off + List.length (residues m) <= List.length s ->
  annotate m (firstn (List.length (residues m)) (skipn off s)) =
  Some (map (fun a => (a_key a, match index_of (a_res a) (residues m) 0 with
                                | Some i => nth_error s (off + i) | None => None end)) m).
Proof.
  intros Hl. set (n := List.length (residues m)) in *.
  assert (Hlen : List.length (firstn n (skipn off s)) = n).
  { rewrite firstn_length, skipn_length. lia. }
  unfold annotate. fold n.
  assert (Hseq : (match firstn n (skipn off s) with [v] => repeat v n | _ => firstn n (skipn off s) end)
                 = firstn n (skipn off s)).
  { destruct (firstn n (skipn off s)) as [|v [|w t]] eqn:E; try reflexivity.
    cbn in Hlen. rewrite <- Hlen. reflexivity. }
  rewrite Hseq, Hlen, Nat.eqb_refl. f_equal. apply map_ext. intros a. f_equal.
  destruct (index_of (a_res a) (residues m) 0) as [i|] eqn:E; [|reflexivity].
  apply index_of_lt in E. apply nth_error_firstn_skipn. fold n in E. lia.
Qed.

Lemma assign_loop_spec {V} ms : forall (s : list V) off,
  off + total_selected ms <= List.length s ->
  assign_loop ms (skipn off s) = Some (expected ms s off).
Proof.
  induction ms as [|[sel m] r IH]; intros s off Hl; [reflexivity|].
  cbn [assign_loop expected]. destruct sel.
  - change (total_selected ((true, m) :: r)) with (List.length (residues m) + total_selected r) in Hl.
    rewrite annotate_slice by lia. rewrite skipn_skipn'.
    rewrite IH by lia. reflexivity.
  - change (total_selected ((false, m) :: r)) with (total_selected r) in Hl. rewrite IH by lia. reflexivity.
Qed.

(* the documented length reconciliation *)
Inductive reconciled {V} (ms : list (bool * list atom)) (seq : list V) : list V -> Prop :=
| rec_exact : List.length seq = total_selected ms -> reconciled ms seq seq
| rec_per_molecule k :
    filter fst ms <> [] ->
    Forall (fun sm => List.length (residues (snd sm)) = List.length seq) (filter fst ms) ->
    k = List.length (filter fst ms) -> reconciled ms seq (List.concat (repeat seq k))
| rec_single v : seq = [v] -> reconciled ms seq (repeat v (total_selected ms)).

Lemma concat_repeat_length {V} (l : list V) k : List.length (List.concat (repeat l k)) = k * List.length l.
Proof. induction k; cbn; [reflexivity|]. rewrite app_length, IHk. lia. Qed.

Lemma all_equal_spec l x : forallb (Nat.eqb x) l = true -> Forall (fun y => y = x) l.
Proof.
  induction l as [|y l IH]; cbn; [constructor|]. intros H. apply andb_prop in H as [H1 H2].
  apply Nat.eqb_eq in H1. constructor; auto.
Qed.

Lemma total_when_equal (lens : list nat) x : Forall (fun y => y = x) lens -> fold_right Nat.add 0 lens = List.length lens * x.
Proof. induction 1 as [|y l Hy Hl IH]; cbn; [reflexivity|]. rewrite IH, Hy. reflexivity. Qed.

Lemma run_system_spec {V} ms (seq : list V) out :
  run_system ms seq = Some out -> exists seq', reconciled ms seq seq' /\ out = expected ms seq' 0.
Proof.
  unfold run_system.
  assert (Ht : fold_right Nat.add 0 (map (fun sm => List.length (residues (snd sm))) (filter fst ms)) = total_selected ms)
    by reflexivity.
  rewrite Ht. remember (map (fun sm => List.length (residues (snd sm))) (filter fst ms)) as lens eqn:Hlens.
  assert (Hfinish : forall s, List.length s = total_selected ms -> assign_loop ms s = Some out -> out = expected ms s 0).
  { intros s Hs Ha. pose proof (assign_loop_spec ms s 0) as G. cbn [skipn] in G. rewrite G in Ha by lia. congruence. }
  assert (Hsingle : forall v, assign_loop ms (List.concat (repeat [v] (total_selected ms))) = Some out ->
                     exists seq', reconciled ms [v] seq' /\ out = expected ms seq' 0).
  { intros v Ha. exists (repeat v (total_selected ms)). split; [apply rec_single; reflexivity|].
    apply Hfinish; [apply repeat_length|].
    replace (List.concat (repeat [v] (total_selected ms))) with (repeat v (total_selected ms)) in Ha; [exact Ha|].
    clear. induction (total_selected ms); cbn; congruence. }
  assert (Hmain :
    match (if match lens with l0 :: _ => Nat.eqb (List.length seq) l0 && all_equal lens | [] => false end
           then Some (List.concat (repeat seq (List.length lens)))
           else if Nat.eqb (List.length seq) 1 then Some (List.concat (repeat seq (total_selected ms)))
           else if negb (Nat.eqb (List.length seq) (total_selected ms)) then None else Some seq) with
    | Some s => assign_loop ms s
    | None => None end = Some out -> exists seq', reconciled ms seq seq' /\ out = expected ms seq' 0).
  { destruct lens as [|l0 lens'].
    - destruct (Nat.eqb_spec (List.length seq) 1) as [H1|H1].
      + destruct seq as [|v [|]]; try discriminate. apply Hsingle.
      + destruct (Nat.eqb_spec (List.length seq) (total_selected ms)) as [H2|H2]; [|discriminate].
        cbn. intros Ha. exists seq. split; [apply rec_exact; exact H2|apply Hfinish; assumption].
    - destruct (Nat.eqb (List.length seq) l0 && all_equal (l0 :: lens')) eqn:E.
      + apply andb_prop in E as [E1 E2]. apply Nat.eqb_eq in E1. cbn in E2. apply all_equal_spec in E2.
        intros Ha. exists (List.concat (repeat seq (List.length (l0 :: lens')))).
        assert (Hall : Forall (fun y => y = List.length seq) (l0 :: lens')).
        { constructor; [congruence|]. rewrite E1. exact E2. }
        split.
        * apply rec_per_molecule.
          -- intro Hn. rewrite Hn in Hlens. discriminate.
          -- rewrite Hlens in Hall. rewrite Forall_map in Hall. exact Hall.
          -- rewrite Hlens, map_length. reflexivity.
        * apply Hfinish; [|exact Ha]. rewrite concat_repeat_length, <- Ht.
          rewrite (total_when_equal (l0 :: lens') (List.length seq) Hall). reflexivity.
      + destruct (Nat.eqb_spec (List.length seq) 1) as [H1|H1].
        * destruct seq as [|v [|]]; try discriminate. apply Hsingle.
        * destruct (Nat.eqb_spec (List.length seq) (total_selected ms)) as [H2|H2]; [|discriminate].
          cbn. intros Ha. exists seq. split; [apply rec_exact; exact H2|apply Hfinish; assumption]. }
  destruct seq as [|v seq0]; [exact Hmain|]. destruct lens; [discriminate|exact Hmain].
Qed.

(* a sequence that fits none of the documented cases is an error, never a shifted assignment *)
Lemma mismatch_is_error_lemma {V} ms (seq : list V) :
  List.length seq <> total_selected ms -> List.length seq <> 1 ->
  (forall sm, In sm (filter fst ms) -> List.length (residues (snd sm)) <> List.length seq) ->
  run_system ms seq = None.
Proof.
  intros H1 H2 H3. unfold run_system. set (lens := map (fun sm => List.length (residues (snd sm))) (filter fst ms)).
  assert (Ht : fold_right Nat.add 0 lens = total_selected ms) by reflexivity. rewrite Ht.
  assert (Hfirst : match lens with l0 :: _ => Nat.eqb (List.length seq) l0 && all_equal lens | [] => false end = false).
  { unfold lens. destruct (filter fst ms) as [|sm r] eqn:E; [reflexivity|]. cbn.
    destruct (Nat.eqb_spec (List.length seq) (List.length (residues (snd sm)))) as [Heq|]; [|reflexivity].
    exfalso. apply (H3 sm); [left; reflexivity|congruence]. }
  rewrite Hfirst. destruct (Nat.eqb_spec (List.length seq) 1); [contradiction|].
  destruct (Nat.eqb_spec (List.length seq) (total_selected ms)); [contradiction|]. cbn.
  destruct seq; [reflexivity|]. destruct lens; reflexivity.
Qed.
