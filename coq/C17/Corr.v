(* C17 — case type and the two boolean functions evaluated on generated cases. *)
From Coq Require Import List Bool ZArith String Ascii.
From V Require Import Base.Sort C17.Model C17.Proofs C17.Assign.
From V Require Import Extracted.Dssp.
Import ListNotations.

Fixpoint list_eqb {A} (f : A -> A -> bool) (a b : list A) : bool :=
  match a, b with [], [] => true | x :: r, y :: s => f x y && list_eqb f r s | _, _ => false end.
Definition opt_eqb {A} (f : A -> A -> bool) (a b : option A) : bool :=
  match a, b with Some x, Some y => f x y | None, None => true | _, _ => false end.
Definition asg_eqb (a b : Z * option Z) : bool := Z.eqb (fst a) (fst b) && opt_eqb Z.eqb (snd a) (snd b).

Inductive case :=
| CAssign (ms : list (bool * list atom)) (seq : list Z)
          (impl : option (list (list (Z * option Z))))      (* None: ValueError *)
| CConvert (seq : string) (impl : option string).             (* None: KeyError *)

Definition corr (k : case) : bool :=
  match k with
  | CAssign ms seq impl => opt_eqb (list_eqb (list_eqb asg_eqb)) (run_system ms seq) impl
  | CConvert seq impl => opt_eqb txt_eqb (convert ss_cg pats (s2l seq)) (option_map s2l impl)
  end.

(* the property evaluated directly on the implementation's result *)
Definition reconcile_b (ms : list (bool * list atom)) (seq : list Z) : option (list Z) :=
  let lens := map (fun sm => List.length (residues (snd sm))) (filter fst ms) in
  let total := total_selected ms in
  if Nat.eqb (List.length seq) total then Some seq
  else if (match lens with l0 :: _ => Nat.eqb (List.length seq) l0 && all_equal lens | [] => false end)
       then Some (List.concat (repeat seq (List.length lens)))
  else match seq with [v] => Some (repeat v total) | _ => None end.

Definition prop (k : case) : bool :=
  match k with
  | CAssign ms seq impl =>
      match impl, reconcile_b ms seq with
      | Some out, Some seq' => list_eqb (list_eqb asg_eqb) out (expected ms seq' 0)
      | None, None => true
      | None, Some _ => match seq, filter fst ms with _ :: _, [] => true | _, _ => false end
      | Some _, None => false
      end
  | CConvert seq impl =>
      match impl, convert_spec ss_cg (s2l seq) with
      | Some o, Some e => txt_eqb (s2l o) e
      | None, None => true
      | _, _ => false
      end
  end.
