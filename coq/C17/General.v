(* C17 — the helix rule for strings of EVERY length.
   The flanked wildcard string is a dot followed by dot-terminated segments without dots. Each of the nine patterns
   (regenerated from the source) is of one of three shapes — .h. / .h / h. with h a dot-free word — and
   str.replace + "while pattern in s" acts segment-wise on such strings; the composition on runs of H is the documented
   rule. *)
From Coq Require Import List Bool Arith String Ascii Lia.
From V Require Import C17.Model C17.Proofs.
Import ListNotations.

(* ---------- str.replace without fuel ---------- *)
Definition rp (p r s : txt) : txt := replace_pass (List.length s) p r s.

Lemma skipn_length_le {A} n (l : list A) : List.length (skipn n l) <= List.length l.
Proof. rewrite skipn_length. lia. Qed.

Lemma rp_fuel_S p r : p <> [] -> forall f s, List.length s <= f -> replace_pass (S f) p r s = replace_pass f p r s.
Proof.
  intros Hp. induction f as [|f IH]; intros s Hl.
  - destruct s; [|cbn in Hl; lia]. cbn. destruct p; [contradiction|reflexivity].
  - destruct s as [|c s']; [reflexivity|]. cbn in Hl.
    change (replace_pass (S (S f)) p r (c :: s')) with
      (if is_prefix p (c :: s') then r ++ replace_pass (S f) p r (skipn (List.length p) (c :: s')) else c :: replace_pass (S f) p r s').
    change (replace_pass (S f) p r (c :: s')) with
      (if is_prefix p (c :: s') then r ++ replace_pass f p r (skipn (List.length p) (c :: s')) else c :: replace_pass f p r s').
    destruct (is_prefix p (c :: s')).
    + f_equal. apply IH. destruct p as [|a p']; [contradiction|]. cbn [List.length skipn].
      pose proof (skipn_length_le (List.length p') s'). lia.
    + f_equal. apply IH. lia.
Qed.

Lemma rp_fuel p r : p <> [] -> forall f s, List.length s <= f -> replace_pass f p r s = rp p r s.
Proof.
  intros Hp f s Hl. unfold rp. replace f with ((f - List.length s) + List.length s) by lia.
  induction (f - List.length s) as [|d IH]; [reflexivity|].
  cbn [Nat.add]. rewrite rp_fuel_S by (auto; lia). exact IH.
Qed.

Lemma rp_nil p r : p <> [] -> rp p r [] = [].
Proof. reflexivity. Qed.

Lemma rp_cons p r c s : p <> [] ->
  rp p r (c :: s) = if is_prefix p (c :: s) then r ++ rp p r (skipn (List.length p) (c :: s)) else c :: rp p r s.
Proof.
  intros Hp. unfold rp at 1. cbn [List.length].
  change (replace_pass (S (List.length s)) p r (c :: s)) with
    (if is_prefix p (c :: s) then r ++ replace_pass (List.length s) p r (skipn (List.length p) (c :: s)) else c :: replace_pass (List.length s) p r s).
  destruct (is_prefix p (c :: s)); [|reflexivity]. f_equal. apply rp_fuel; [exact Hp|].
  destruct p as [|a p']; [contradiction|]. cbn [List.length skipn]. apply skipn_length_le.
Qed.

Lemma replace_until_unfold fuel p r s :
  replace_until fuel p r s =
  if contains p s then match fuel with O => None | S f => replace_until f p r (replace_pass (S (List.length s)) p r s) end else Some s.
Proof. destruct fuel; reflexivity. Qed.

Lemma contains_cons p c s : contains p (c :: s) = is_prefix p (c :: s) || contains p s.
Proof. reflexivity. Qed.

Lemma contains_nil p : p <> [] -> contains p [] = false.
Proof. destruct p; [contradiction|reflexivity]. Qed.

(* ---------- dot-free words and segments ---------- *)
Definition nodot (g : txt) : Prop := Forall (fun c => Ascii.eqb c dot = false) g.
Definition body (segs : list txt) : txt := flat_map (fun g => g ++ [dot]) segs.
Definition render (segs : list txt) : txt := dot :: body segs.

Lemma txt_eqb_refl a : txt_eqb a a = true.
Proof. induction a as [|x a IH]; [reflexivity|]. cbn. rewrite Ascii.eqb_refl. exact IH. Qed.

Lemma txt_eqb_true a b : txt_eqb a b = true -> a = b.
Proof.
  revert b. induction a as [|x a IH]; intros [|y b]; cbn; try discriminate; [reflexivity|].
  intros H. apply andb_prop in H as [H1 H2]. apply Ascii.eqb_eq in H1. subst. f_equal. apply IH. exact H2.
Qed.

Lemma txt_eqb_length a b : List.length a <> List.length b -> txt_eqb a b = false.
Proof. intros H. destruct (txt_eqb a b) eqn:E; [|reflexivity]. apply txt_eqb_true in E. subst. contradiction. Qed.

(* a word h without dots, followed by a dot, is a prefix of g.rest exactly when g = h *)
Lemma prefix_word_dot h : nodot h -> forall g t, nodot g -> is_prefix (h ++ [dot]) (g ++ dot :: t) = txt_eqb h g.
Proof.
  induction h as [|a h IH]; intros Hh g t Hg.
  - destruct g as [|c g]; [reflexivity|].
    inversion Hg as [|? ? Hc _]; subst.
    change (is_prefix ([] ++ [dot]) ((c :: g) ++ dot :: t)) with (Ascii.eqb dot c && true).
    rewrite Ascii.eqb_sym, Hc. reflexivity.
  - inversion Hh as [|? ? Ha Hh']; subst. destruct g as [|c g].
    + change (is_prefix ((a :: h) ++ [dot]) ([] ++ dot :: t)) with (Ascii.eqb a dot && is_prefix (h ++ [dot]) t).
      rewrite Ha. reflexivity.
    + inversion Hg as [|? ? Hc Hg']; subst.
      change (is_prefix ((a :: h) ++ [dot]) ((c :: g) ++ dot :: t)) with (Ascii.eqb a c && is_prefix (h ++ [dot]) (g ++ dot :: t)).
      rewrite (IH Hh' g t Hg'). reflexivity.
Qed.

(* a dot-free word h is a prefix of g.rest exactly when it is a prefix of g *)
Lemma prefix_word h : nodot h -> forall g t, is_prefix h (g ++ dot :: t) = is_prefix h g.
Proof.
  induction h as [|a h IH]; intros Hh g t; [destruct g; reflexivity|].
  inversion Hh as [|? ? Ha Hh']; subst. destruct g as [|c g].
  - change (is_prefix (a :: h) ([] ++ dot :: t)) with (Ascii.eqb a dot && is_prefix h t). rewrite Ha. reflexivity.
  - change (is_prefix (a :: h) ((c :: g) ++ dot :: t)) with (Ascii.eqb a c && is_prefix h (g ++ dot :: t)).
    rewrite (IH Hh'). reflexivity.
Qed.

(* a pattern that starts with a dot finds nothing inside a segment *)
Lemma rp_copy p' r g : nodot g -> forall t, rp (dot :: p') r (g ++ t) = g ++ rp (dot :: p') r t.
Proof.
  intros Hg t. induction Hg as [|c g Hc _ IH]; [reflexivity|].
  change ((c :: g) ++ t) with (c :: (g ++ t)). rewrite rp_cons by discriminate.
  change (is_prefix (dot :: p') (c :: g ++ t)) with (Ascii.eqb dot c && is_prefix p' (g ++ t)).
  rewrite Ascii.eqb_sym, Hc. cbv beta iota. change (false && is_prefix p' (g ++ t)) with false. cbv iota. rewrite IH. reflexivity.
Qed.

Lemma contains_copy p' g : nodot g -> forall t, contains (dot :: p') (g ++ t) = contains (dot :: p') t.
Proof.
  intros Hg t. induction Hg as [|c g Hc _ IH]; [reflexivity|].
  change ((c :: g) ++ t) with (c :: (g ++ t)). rewrite contains_cons.
  change (is_prefix (dot :: p') (c :: g ++ t)) with (Ascii.eqb dot c && is_prefix p' (g ++ t)).
  rewrite Ascii.eqb_sym, Hc. exact IH.
Qed.

Lemma body_cons g segs : body (g :: segs) = g ++ dot :: body segs.
Proof. unfold body. cbn [flat_map]. rewrite <- app_assoc. reflexivity. Qed.

(* ---------- shape .h. : a whole segment equal to h becomes d ---------- *)
Section Whole.
  Variables h d : txt.
  Hypothesis h_nodot : nodot h.
  Hypothesis d_nodot : nodot d.
  Hypothesis d_not_h : txt_eqb h d = false.
  Hypothesis hd_len : List.length d = List.length h.
  Let P := dot :: h ++ [dot].
  Let R := dot :: d ++ [dot].

  (* one str.replace pass: a replaced segment swallows the dot the next segment would need *)
  Fixpoint pass_a (skip : bool) (segs : list txt) : list txt :=
    match segs with
    | [] => []
    | g :: rest => if skip then g :: pass_a false rest
                   else if txt_eqb h g then d :: pass_a true rest else g :: pass_a false rest
    end.
  Definition full_a (segs : list txt) : list txt := map (fun g => if txt_eqb h g then d else g) segs.
  Definition cnt_a (segs : list txt) : nat := List.length (filter (txt_eqb h) segs).

  Lemma P_nonnil : P <> [].
  Proof. discriminate. Qed.

  Lemma skip_P t : skipn (List.length P) (dot :: h ++ dot :: t) = t.
  Proof.
    unfold P. cbn [List.length skipn]. rewrite app_length. cbn [List.length]. rewrite Nat.add_1_r. 
    change (h ++ dot :: t) with (h ++ [dot] ++ t). rewrite app_assoc.
    replace (S (List.length h)) with (List.length (h ++ [dot])) by (rewrite app_length; cbn; lia).
    rewrite skipn_app, Nat.sub_diag, skipn_all. reflexivity.
  Qed.

  Lemma pass_a_rp segs : Forall nodot segs ->
    rp P R (dot :: body segs) = dot :: body (pass_a false segs) /\ rp P R (body segs) = body (pass_a true segs).
  Proof.
    intros Hs. induction Hs as [|g rest Hg _ [IH1 IH2]].
    - split; [|reflexivity]. change (body []) with (@nil ascii). rewrite rp_cons by apply P_nonnil.
      assert (E : is_prefix P [dot] = false).
      { unfold P. change (is_prefix (dot :: h ++ [dot]) [dot]) with (Ascii.eqb dot dot && is_prefix (h ++ [dot]) []).
        destruct h; reflexivity. }
      rewrite E. reflexivity.
    - assert (E2 : rp P R (body (g :: rest)) = body (pass_a true (g :: rest))).
      { rewrite body_cons. unfold P. rewrite rp_copy by exact Hg. fold P. rewrite IH1. cbn [pass_a]. rewrite body_cons. reflexivity. }
      split; [|exact E2].
      rewrite body_cons, rp_cons by apply P_nonnil.
      assert (E : is_prefix P (dot :: g ++ dot :: body rest) = txt_eqb h g).
      { unfold P. change (is_prefix (dot :: h ++ [dot]) (dot :: g ++ dot :: body rest))
          with (Ascii.eqb dot dot && is_prefix (h ++ [dot]) (g ++ dot :: body rest)).
        rewrite prefix_word_dot by assumption. reflexivity. }
      rewrite E. cbn [pass_a]. destruct (txt_eqb h g) eqn:Eg.
      + apply txt_eqb_true in Eg. subst g. rewrite skip_P, IH2, body_cons. unfold R. cbn [app]. rewrite <- app_assoc. reflexivity.
      + unfold P. rewrite rp_copy by exact Hg. fold P. rewrite IH1, body_cons. reflexivity.
  Qed.

  Lemma contains_a segs : Forall nodot segs ->
    contains P (dot :: body segs) = existsb (txt_eqb h) segs /\ contains P (body segs) = existsb (txt_eqb h) (tl segs).
  Proof.
    intros Hs. induction Hs as [|g rest Hg _ [IH1 IH2]].
    - split; [|reflexivity]. change (body []) with (@nil ascii). rewrite contains_cons, contains_nil by apply P_nonnil.
      unfold P. change (is_prefix (dot :: h ++ [dot]) [dot]) with (Ascii.eqb dot dot && is_prefix (h ++ [dot]) []).
      destruct h; reflexivity.
    - assert (E2 : contains P (body (g :: rest)) = existsb (txt_eqb h) rest).
      { rewrite body_cons. unfold P. rewrite contains_copy by exact Hg. fold P. exact IH1. }
      split; [|exact E2].
      rewrite contains_cons, E2. cbn [existsb]. f_equal. rewrite body_cons.
      unfold P. change (is_prefix (dot :: h ++ [dot]) (dot :: g ++ dot :: body rest))
          with (Ascii.eqb dot dot && is_prefix (h ++ [dot]) (g ++ dot :: body rest)).
      rewrite prefix_word_dot by assumption. reflexivity.
  Qed.

  Lemma pass_a_nodot b segs : Forall nodot segs -> Forall nodot (pass_a b segs).
  Proof.
    intros Hs. revert b. induction Hs as [|g rest Hg _ IH]; intros b; [constructor|].
    cbn [pass_a]. destruct b; [constructor; auto|]. destruct (txt_eqb h g); constructor; auto.
  Qed.

  Lemma full_pass b segs : full_a (pass_a b segs) = full_a segs.
  Proof.
    revert b. induction segs as [|g rest IH]; intros b; [reflexivity|].
    cbn [pass_a]. destruct b.
    - unfold full_a in *. cbn [map]. rewrite IH. reflexivity.
    - destruct (txt_eqb h g) eqn:E; unfold full_a in *; cbn [map]; rewrite IH; [rewrite d_not_h, E|rewrite E]; reflexivity.
  Qed.

  Lemma cnt_pass_le b segs : cnt_a (pass_a b segs) <= cnt_a segs.
  Proof.
    revert b. induction segs as [|g rest IH]; intros b; [reflexivity|].
    unfold cnt_a in *. cbn [pass_a]. destruct b.
    - cbn [filter]. specialize (IH false). destruct (txt_eqb h g); cbn [List.length]; lia.
    - destruct (txt_eqb h g) eqn:E; cbn [filter]; [rewrite d_not_h, E|rewrite E]; [specialize (IH true)|specialize (IH false)]; cbn [List.length]; lia.
  Qed.

  Lemma cnt_pass_lt segs : 0 < cnt_a segs -> cnt_a (pass_a false segs) < cnt_a segs.
  Proof.
    induction segs as [|g rest IH]; [cbn; lia|].
    unfold cnt_a in *. cbn [pass_a]. destruct (txt_eqb h g) eqn:E; cbn [filter]; [rewrite d_not_h, E|rewrite E].
    - intros _. pose proof (cnt_pass_le true rest) as Hle. unfold cnt_a in Hle. cbn [List.length]. lia.
    - exact IH.
  Qed.

  Lemma cnt_exists segs : existsb (txt_eqb h) segs = negb (cnt_a segs =? 0).
  Proof.
    induction segs as [|g rest IH]; [reflexivity|]. unfold cnt_a in *. cbn [existsb filter].
    destruct (txt_eqb h g); [reflexivity|exact IH].
  Qed.

  Lemma full_none segs : cnt_a segs = 0 -> full_a segs = segs.
  Proof.
    induction segs as [|g rest IH]; [reflexivity|]. unfold cnt_a, full_a in *. cbn [filter map].
    destruct (txt_eqb h g); [discriminate|]. intros H. rewrite IH by exact H. reflexivity.
  Qed.

  (* while P in s: s = s.replace(P, R) *)
  Lemma until_a fuel : forall segs, Forall nodot segs -> cnt_a segs <= fuel ->
    replace_until fuel P R (render segs) = Some (render (full_a segs)).
  Proof.
    induction fuel as [|f IH]; intros segs Hs Hc; rewrite replace_until_unfold; unfold render;
      rewrite (proj1 (contains_a segs Hs)), cnt_exists.
    - replace (cnt_a segs) with 0 by lia. cbn. rewrite full_none by lia. reflexivity.
    - destruct (cnt_a segs =? 0) eqn:E; cbn [negb].
      + apply Nat.eqb_eq in E. rewrite full_none by exact E. reflexivity.
      + apply Nat.eqb_neq in E. rewrite rp_fuel by (try apply P_nonnil; lia).
        rewrite (proj1 (pass_a_rp segs Hs)). fold (render (pass_a false segs)).
        rewrite IH; [rewrite full_pass; reflexivity|apply pass_a_nodot; exact Hs|].
        pose proof (cnt_pass_lt segs). lia.
  Qed.

  Lemma full_a_nodot segs : Forall nodot segs -> Forall nodot (full_a segs).
  Proof. intros Hs. unfold full_a. apply Forall_map. eapply Forall_impl; [|exact Hs]. intros g Hg. destruct (txt_eqb h g); assumption. Qed.
End Whole.

Lemma cnt_a_le_length h segs : cnt_a h segs <= List.length segs.
Proof. unfold cnt_a. induction segs as [|g r IH]; [reflexivity|]. cbn [filter]. destruct (txt_eqb h g); cbn [List.length]; lia. Qed.

Lemma nodot_app a b : nodot a -> nodot b -> nodot (a ++ b).
Proof. intros Ha Hb. apply Forall_app. split; assumption. Qed.

Lemma nodot_skipn n g : nodot g -> nodot (skipn n g).
Proof.
  intros Hg. unfold nodot in *. rewrite Forall_forall in *. intros x Hx. apply Hg.
  rewrite <- (firstn_skipn n g). apply in_or_app. right. exact Hx.
Qed.

Lemma is_prefix_split p : forall g, is_prefix p g = true -> g = p ++ skipn (List.length p) g.
Proof.
  induction p as [|a p IH]; intros g H; [reflexivity|]. destruct g as [|c g]; [discriminate|].
  cbn [is_prefix] in H. apply andb_prop in H as [H1 H2]. apply Ascii.eqb_eq in H1. subst c.
  cbn [List.length skipn app]. f_equal. apply IH. exact H2.
Qed.

(* ---------- shape .h : a segment that starts with h gets d there ---------- *)
Section Front.
  Variables h d : txt.
  Hypothesis h_nodot : nodot h.
  Hypothesis d_nodot : nodot d.
  Hypothesis h_nonnil : h <> [].
  Hypothesis d_not_h : forall x, is_prefix h (d ++ x) = false.
  Let P := dot :: h.
  Let R := dot :: d.

  Definition fb (g : txt) : txt := if is_prefix h g then d ++ skipn (List.length h) g else g.

  Lemma pass_b_rp segs : Forall nodot segs -> rp P R (dot :: body segs) = dot :: body (map fb segs).
  Proof.
    intros Hs. induction Hs as [|g rest Hg _ IH].
    - change (body []) with (@nil ascii). rewrite rp_cons by discriminate.
      unfold P. change (is_prefix (dot :: h) [dot]) with (Ascii.eqb dot dot && is_prefix h []).
      destruct h; [contradiction|reflexivity].
    - rewrite body_cons, rp_cons by discriminate.
      assert (E : is_prefix P (dot :: g ++ dot :: body rest) = is_prefix h g).
      { unfold P. change (is_prefix (dot :: h) (dot :: g ++ dot :: body rest)) with (Ascii.eqb dot dot && is_prefix h (g ++ dot :: body rest)).
        rewrite prefix_word by exact h_nodot. reflexivity. }
      rewrite E. cbn [map]. rewrite body_cons. unfold fb at 1. destruct (is_prefix h g) eqn:Eg.
      + pose proof (is_prefix_split h g Eg) as Sg.
        assert (Sk : skipn (List.length P) (dot :: g ++ dot :: body rest) = skipn (List.length h) g ++ dot :: body rest).
        { unfold P. cbn [List.length skipn]. rewrite Sg at 1. rewrite <- app_assoc, skipn_app, Nat.sub_diag, skipn_all. reflexivity. }
        rewrite Sk. unfold P. rewrite rp_copy by (apply nodot_skipn; exact Hg). fold P. rewrite IH.
        unfold R. cbn [app]. rewrite <- app_assoc. reflexivity.
      + unfold P. rewrite rp_copy by exact Hg. fold P. rewrite IH. reflexivity.
  Qed.

  Lemma contains_b segs : Forall nodot segs -> contains P (dot :: body segs) = existsb (is_prefix h) segs.
  Proof.
    intros Hs. induction Hs as [|g rest Hg _ IH].
    - change (body []) with (@nil ascii). rewrite contains_cons, contains_nil by discriminate.
      unfold P. change (is_prefix (dot :: h) [dot]) with (Ascii.eqb dot dot && is_prefix h []).
      destruct h; [contradiction|reflexivity].
    - rewrite body_cons, contains_cons. cbn [existsb]. f_equal.
      + unfold P. change (is_prefix (dot :: h) (dot :: g ++ dot :: body rest)) with (Ascii.eqb dot dot && is_prefix h (g ++ dot :: body rest)).
        rewrite prefix_word by exact h_nodot. reflexivity.
      + unfold P. rewrite contains_copy by exact Hg. exact IH.
  Qed.

  Lemma fb_done g : is_prefix h (fb g) = false.
  Proof. unfold fb. destruct (is_prefix h g) eqn:E; [apply d_not_h|exact E]. Qed.

  Lemma fb_nodot segs : Forall nodot segs -> Forall nodot (map fb segs).
  Proof.
    intros Hs. apply Forall_map. eapply Forall_impl; [|exact Hs]. intros g Hg. unfold fb.
    destruct (is_prefix h g); [apply nodot_app; [exact d_nodot|apply nodot_skipn; exact Hg]|exact Hg].
  Qed.

  Lemma until_b fuel segs : Forall nodot segs ->
    replace_until (S fuel) P R (render segs) = Some (render (map fb segs)).
  Proof.
    intros Hs. rewrite replace_until_unfold. unfold render. rewrite contains_b by exact Hs.
    assert (Hdone : replace_until fuel P R (dot :: body (map fb segs)) = Some (dot :: body (map fb segs))).
    { rewrite replace_until_unfold, contains_b by (apply fb_nodot; exact Hs).
      replace (existsb (is_prefix h) (map fb segs)) with false; [reflexivity|].
      symmetry. clear Hs. induction segs as [|g rest IH]; [reflexivity|]. cbn [map existsb]. rewrite fb_done. exact IH. }
    destruct (existsb (is_prefix h) segs) eqn:E.
    - rewrite rp_fuel by (try discriminate; lia). rewrite pass_b_rp by exact Hs. exact Hdone.
    - f_equal. f_equal. f_equal. clear Hdone Hs. induction segs as [|g rest IH]; [reflexivity|].
      cbn [existsb] in E. apply orb_false_elim in E as [E1 E2]. cbn [map]. unfold fb at 1. rewrite E1, <- IH by exact E2. reflexivity.
  Qed.
End Front.

(* ---------- shape h. : a segment that ends with h gets d there ---------- *)
Section Back.
  Variables h d : txt.
  Hypothesis h_nodot : nodot h.
  Hypothesis d_nodot : nodot d.
  Hypothesis h_nonnil : h <> [].
  Hypothesis hd_len : List.length d = List.length h.
  Hypothesis d_not_h : txt_eqb h d = false.
  Let P := h ++ [dot].
  Let R := d ++ [dot].

  Fixpoint fc (g : txt) : txt :=
    if txt_eqb h g then d else match g with [] => [] | c :: g' => c :: fc g' end.
  Fixpoint hs (g : txt) : bool := txt_eqb h g || match g with [] => false | _ :: g' => hs g' end.

  Lemma Pc_nonnil : P <> [].
  Proof. unfold P. destruct h; discriminate. Qed.

  Lemma P_at_dot t : is_prefix P (dot :: t) = false.
  Proof.
    unfold P. destruct h as [|a h']; [contradiction|]. inversion h_nodot as [|? ? Ha _]; subst.
    change (is_prefix ((a :: h') ++ [dot]) (dot :: t)) with (Ascii.eqb a dot && is_prefix (h' ++ [dot]) t). rewrite Ha. reflexivity.
  Qed.

  Lemma skip_Pc t : skipn (List.length P) (h ++ dot :: t) = t.
  Proof.
    unfold P. change (h ++ dot :: t) with (h ++ [dot] ++ t). rewrite app_assoc, skipn_app, Nat.sub_diag, skipn_all. reflexivity.
  Qed.

  Lemma fc_seg g : nodot g -> forall t, rp P R (g ++ dot :: t) = fc g ++ dot :: rp P R t.
  Proof.
    intros Hg t. induction Hg as [|c g Hc Hg IH].
    - change ([] ++ dot :: t) with (dot :: t). rewrite rp_cons by apply Pc_nonnil. rewrite P_at_dot.
      cbn [fc]. destruct h; [contradiction|reflexivity].
    - assert (Hcg : nodot (c :: g)) by (constructor; assumption).
      change ((c :: g) ++ dot :: t) with (c :: (g ++ dot :: t)). rewrite rp_cons by apply Pc_nonnil.
      change (c :: (g ++ dot :: t)) with ((c :: g) ++ dot :: t). unfold P at 1. rewrite prefix_word_dot by assumption.
      cbn [fc]. destruct (txt_eqb h (c :: g)) eqn:E.
      + apply txt_eqb_true in E. rewrite <- E. rewrite skip_Pc. unfold R. rewrite <- app_assoc. reflexivity.
      + change ((c :: g) ++ dot :: t) with (c :: (g ++ dot :: t)). rewrite IH. reflexivity.
  Qed.

  Lemma pass_c_body segs : Forall nodot segs -> rp P R (body segs) = body (map fc segs).
  Proof.
    intros Hs. induction Hs as [|g rest Hg _ IH]; [reflexivity|].
    rewrite body_cons, fc_seg by exact Hg. rewrite IH. cbn [map]. rewrite body_cons. reflexivity.
  Qed.

  Lemma pass_c_rp segs : Forall nodot segs -> rp P R (dot :: body segs) = dot :: body (map fc segs).
  Proof. intros Hs. rewrite rp_cons by apply Pc_nonnil. rewrite P_at_dot, pass_c_body by exact Hs. reflexivity. Qed.

  Lemma hs_seg g : nodot g -> forall t, contains P (g ++ dot :: t) = hs g || contains P t.
  Proof.
    intros Hg t. induction Hg as [|c g Hc Hg IH].
    - change ([] ++ dot :: t) with (dot :: t). rewrite contains_cons, P_at_dot. cbn [hs]. destruct h; [contradiction|reflexivity].
    - assert (Hcg : nodot (c :: g)) by (constructor; assumption).
      change ((c :: g) ++ dot :: t) with (c :: (g ++ dot :: t)). rewrite contains_cons.
      change (c :: (g ++ dot :: t)) with ((c :: g) ++ dot :: t). unfold P at 1. rewrite prefix_word_dot by assumption.
      rewrite IH. cbn [hs]. rewrite orb_assoc. reflexivity.
  Qed.

  Lemma contains_c segs : Forall nodot segs -> contains P (dot :: body segs) = existsb hs segs.
  Proof.
    intros Hs. rewrite contains_cons, P_at_dot. cbn [orb]. induction Hs as [|g rest Hg _ IH].
    - apply contains_nil, Pc_nonnil.
    - rewrite body_cons, hs_seg by exact Hg. rewrite IH. reflexivity.
  Qed.

  Lemma fc_length g : List.length (fc g) = List.length g.
  Proof.
    induction g as [|c g IH]; cbn [fc].
    - destruct (txt_eqb h []) eqn:E; [apply txt_eqb_true in E; rewrite <- E in *; contradiction|reflexivity].
    - destruct (txt_eqb h (c :: g)) eqn:E; [apply txt_eqb_true in E; rewrite <- E; exact hd_len|cbn [List.length]; rewrite IH; reflexivity].
  Qed.

  Lemma fc_short g : List.length g < List.length h -> fc g = g.
  Proof.
    induction g as [|c g IH]; intros Hl; cbn [fc]; rewrite txt_eqb_length by lia; [reflexivity|].
    cbn [List.length] in Hl. rewrite IH by lia. reflexivity.
  Qed.

  Lemma hs_fc g : hs (fc g) = false.
  Proof.
    induction g as [|c g IH]; cbn [fc].
    - destruct (txt_eqb h []) eqn:E; [apply txt_eqb_true in E; rewrite <- E in *; contradiction|]. cbn [hs]. rewrite E. reflexivity.
    - destruct (txt_eqb h (c :: g)) eqn:E.
      + (* the whole of d: only a suffix of the length of h could match *)
        clear IH E. assert (G : forall x, List.length x <= List.length h -> txt_eqb h x = false \/ x = d -> hs x = false).
        { induction x as [|a x IHx]; intros Hl Hx; cbn [hs].
          - destruct (txt_eqb h []) eqn:E0; [apply txt_eqb_true in E0; rewrite <- E0 in *; contradiction|reflexivity].
          - assert (E1 : txt_eqb h (a :: x) = false) by (destruct Hx as [Hx|Hx]; [exact Hx|rewrite Hx; exact d_not_h]).
            rewrite E1. cbn [orb]. apply IHx; [cbn [List.length] in Hl; lia|]. left. apply txt_eqb_length. cbn [List.length] in Hl. lia. }
        apply G; [lia|right; reflexivity].
      + cbn [hs]. rewrite IH, orb_false_r. destruct (txt_eqb h (c :: fc g)) eqn:E2; [|reflexivity].
        apply txt_eqb_true in E2. assert (Hl : List.length g < List.length h) by (rewrite E2; cbn [List.length]; rewrite fc_length; lia).
        rewrite fc_short in E2 by exact Hl. rewrite E2, txt_eqb_refl in E. discriminate.
  Qed.

  Lemma fc_unfold g : fc g = if txt_eqb h g then d else match g with [] => [] | c :: g' => c :: fc g' end.
  Proof. destruct g; reflexivity. Qed.

  Lemma fc_app_h x : fc (x ++ h) = x ++ d.
  Proof.
    induction x as [|c x IH].
    - change ([] ++ h) with h. rewrite fc_unfold, txt_eqb_refl. reflexivity.
    - change ((c :: x) ++ h) with (c :: (x ++ h)). cbn [fc]. rewrite txt_eqb_length by (cbn [List.length]; rewrite app_length; lia).
      rewrite IH. reflexivity.
  Qed.

  Lemma fc_nodot segs : Forall nodot segs -> Forall nodot (map fc segs).
  Proof.
    intros Hs. apply Forall_map. eapply Forall_impl; [|exact Hs]. intros g Hg.
    induction Hg as [|c g Hc Hg IH]; cbn [fc].
    - destruct (txt_eqb h []); [exact d_nodot|constructor].
    - destruct (txt_eqb h (c :: g)); [exact d_nodot|constructor; assumption].
  Qed.

  Lemma fc_none g : hs g = false -> fc g = g.
  Proof.
    induction g as [|c g IH]; cbn [hs fc]; intros H; apply orb_false_elim in H as [H1 H2]; rewrite H1; [reflexivity|].
    rewrite IH by exact H2. reflexivity.
  Qed.

  Lemma until_c fuel segs : Forall nodot segs ->
    replace_until (S fuel) P R (render segs) = Some (render (map fc segs)).
  Proof.
    intros Hs. rewrite replace_until_unfold. unfold render. rewrite contains_c by exact Hs.
    assert (Hdone : replace_until fuel P R (dot :: body (map fc segs)) = Some (dot :: body (map fc segs))).
    { rewrite replace_until_unfold, contains_c by (apply fc_nodot; exact Hs).
      replace (existsb hs (map fc segs)) with false; [reflexivity|].
      symmetry. clear Hs. induction segs as [|g rest IH]; [reflexivity|]. cbn [map existsb]. rewrite hs_fc. exact IH. }
    destruct (existsb hs segs) eqn:E.
    - rewrite rp_fuel by (try apply Pc_nonnil; lia). rewrite pass_c_rp by exact Hs. exact Hdone.
    - f_equal. f_equal. f_equal. clear Hdone Hs. induction segs as [|g rest IH]; [reflexivity|].
      cbn [existsb] in E. apply orb_false_elim in E as [E1 E2]. cbn [map]. rewrite fc_none by exact E1. rewrite <- IH by exact E2. reflexivity.
  Qed.
End Back.

(* ---------- the nine patterns of the source, by shape ---------- *)
Definition Hn (n : nat) : txt := repeat Hc n.
Definition rout (r : nat) : txt := match r with O => [] | _ => run_text r end.
Definition pa (k : nat) : txt * txt := (dot :: Hn k ++ [dot], dot :: run_text k ++ [dot]).
Definition h4 : txt := Hn 4.
Definition d1 : txt := s2l "1111".
Definition d2 : txt := s2l "2222".

Lemma pats_shape : pats = [pa 1; pa 2; pa 3; pa 4; pa 5; pa 6; pa 7; (dot :: h4, dot :: d1); (h4 ++ [dot], d2 ++ [dot])].
Proof. reflexivity. Qed.

Lemma Hn_nodot n : nodot (Hn n).
Proof. unfold nodot, Hn. apply Forall_forall. intros x Hx. apply repeat_spec in Hx. subst. reflexivity. Qed.

Lemma Hn_length n : List.length (Hn n) = n.
Proof. apply repeat_length. Qed.

Lemma Hn_add a b : Hn (a + b) = Hn a ++ Hn b.
Proof. apply repeat_app. Qed.

Lemma pa_ok k : 1 <= k <= 7 ->
  nodot (run_text k) /\ txt_eqb (Hn k) (run_text k) = false /\ List.length (run_text k) = List.length (Hn k).
Proof.
  intros Hk. destruct k as [|k]; [lia|].
  do 7 (destruct k as [|k]; [split; [repeat constructor|split; reflexivity]|]). lia.
Qed.

Definition step_a (k : nat) (g : txt) : txt := if txt_eqb (Hn k) g then run_text k else g.
Definition stage (g : txt) : txt :=
  fc h4 d2 (fb h4 d1 (step_a 7 (step_a 6 (step_a 5 (step_a 4 (step_a 3 (step_a 2 (step_a 1 g)))))))).

Lemma segs_le_body segs : List.length segs <= List.length (body segs).
Proof.
  induction segs as [|g rest IH]; [reflexivity|]. rewrite body_cons, app_length. cbn [List.length]. lia.
Qed.

Lemma ra_cons p r rest w :
  rewrite_all ((p, r) :: rest) w = match replace_until (S (List.length w)) p r w with Some w' => rewrite_all rest w' | None => None end.
Proof. reflexivity. Qed.

Lemma ra_step_a k rest segs : 1 <= k <= 7 -> Forall nodot segs ->
  rewrite_all (pa k :: rest) (render segs) = rewrite_all rest (render (map (step_a k) segs)) /\ Forall nodot (map (step_a k) segs).
Proof.
  intros Hk Hs. destruct (pa_ok k Hk) as (N & E & L). unfold pa. rewrite ra_cons.
  rewrite (until_a (Hn k) (run_text k) (Hn_nodot k) N E L).
  - split; [reflexivity|]. apply (full_a_nodot (Hn k) (run_text k) N segs Hs).
  - exact Hs.
  - pose proof (cnt_a_le_length (Hn k) segs). pose proof (segs_le_body segs). unfold render. cbn [List.length]. lia.
Qed.

Lemma h4_facts : nodot h4 /\ nodot d1 /\ nodot d2 /\ h4 <> [] /\ (forall x, is_prefix h4 (d1 ++ x) = false)
  /\ List.length d2 = List.length h4 /\ txt_eqb h4 d2 = false.
Proof. repeat split; try (repeat constructor); try discriminate. Qed.

(* the whole rewriting, segment-wise *)
Lemma rewrite_all_segments segs : Forall nodot segs -> rewrite_all pats (render segs) = Some (render (map stage segs)).
Proof.
  intros Hs. rewrite pats_shape. destruct h4_facts as (N4 & N1 & N2 & Z4 & B1 & L2 & E2).
  destruct (ra_step_a 1 [pa 2; pa 3; pa 4; pa 5; pa 6; pa 7; (dot :: h4, dot :: d1); (h4 ++ [dot], d2 ++ [dot])] segs ltac:(lia) Hs) as [-> H1].
  destruct (ra_step_a 2 [pa 3; pa 4; pa 5; pa 6; pa 7; (dot :: h4, dot :: d1); (h4 ++ [dot], d2 ++ [dot])] _ ltac:(lia) H1) as [-> H2].
  destruct (ra_step_a 3 [pa 4; pa 5; pa 6; pa 7; (dot :: h4, dot :: d1); (h4 ++ [dot], d2 ++ [dot])] _ ltac:(lia) H2) as [-> H3].
  destruct (ra_step_a 4 [pa 5; pa 6; pa 7; (dot :: h4, dot :: d1); (h4 ++ [dot], d2 ++ [dot])] _ ltac:(lia) H3) as [-> H4].
  destruct (ra_step_a 5 [pa 6; pa 7; (dot :: h4, dot :: d1); (h4 ++ [dot], d2 ++ [dot])] _ ltac:(lia) H4) as [-> H5].
  destruct (ra_step_a 6 [pa 7; (dot :: h4, dot :: d1); (h4 ++ [dot], d2 ++ [dot])] _ ltac:(lia) H5) as [-> H6].
  destruct (ra_step_a 7 [(dot :: h4, dot :: d1); (h4 ++ [dot], d2 ++ [dot])] _ ltac:(lia) H6) as [-> H7].
  rewrite ra_cons, (until_b h4 d1 N4 N1 Z4 B1 _ _ H7).
  rewrite ra_cons, (until_c h4 d2 N4 N2 Z4 L2 E2 _ _ (fb_nodot h4 d1 N1 _ H7)).
  cbn [rewrite_all]. rewrite !map_map. reflexivity.
Qed.

(* ---------- what the rewriting does to a run of n H ---------- *)
Lemma is_prefix_app p x : is_prefix p (p ++ x) = true.
Proof. induction p as [|a p IH]; [reflexivity|]. cbn [app is_prefix]. rewrite Ascii.eqb_refl. exact IH. Qed.

Lemma skipn_app_exact {A} (p x : list A) : skipn (List.length p) (p ++ x) = x.
Proof. rewrite skipn_app, Nat.sub_diag, skipn_all. reflexivity. Qed.

Lemma step_a_long k n : k < n -> step_a k (Hn n) = Hn n.
Proof. intros H. unfold step_a. rewrite txt_eqb_length by (rewrite !Hn_length; lia). reflexivity. Qed.

Lemma stage_run n : stage (Hn n) = rout n.
Proof.
  destruct (Nat.le_gt_cases n 7) as [Hs|Hl].
  - do 8 (destruct n as [|n]; [reflexivity|]). lia.
  - replace n with (8 + (n - 8)) by lia. set (m := n - 8). unfold stage.
    rewrite !step_a_long by lia.
    replace (8 + m) with (4 + (4 + m)) by lia. rewrite Hn_add. fold h4.
    unfold fb. rewrite is_prefix_app, skipn_app_exact.
    replace (4 + m) with (m + 4) by lia. rewrite Hn_add. fold h4. rewrite app_assoc.
    rewrite fc_app_h by reflexivity.
    unfold rout. replace (4 + (m + 4)) with (S (S (S (S (S (S (S (S m)))))))) by lia.
    cbn [run_text]. replace (S (S (S (S (S (S (S (S m))))))) - 8) with m by lia.
    rewrite <- app_assoc. reflexivity.
Qed.

(* ---------- a word over {H, .} as runs ---------- *)
Fixpoint runs (w : txt) (r : nat) : list nat :=
  match w with
  | [] => [r]
  | c :: w' => if Ascii.eqb c Hc then runs w' (S r) else r :: runs w' 0
  end.

Definition hd_word (w : txt) : bool := forallb (fun c => Ascii.eqb c Hc || Ascii.eqb c dot) w.

Lemma Hn_snoc n l : Hn n ++ Hc :: l = Hn (S n) ++ l.
Proof. induction n as [|n IH]; [reflexivity|]. change (Hn (S n)) with (Hc :: Hn n) at 1. cbn [app]. rewrite IH. reflexivity. Qed.

Lemma word_as_runs w : hd_word w = true -> forall r, Hn r ++ w ++ [dot] = body (map Hn (runs w r)).
Proof.
  induction w as [|c w IH]; intros Hw r.
  - cbn [runs map app]. rewrite body_cons. reflexivity.
  - unfold hd_word in Hw. cbn [forallb] in Hw. apply andb_prop in Hw as [Hc0 Hw]. cbn [runs].
    destruct (Ascii.eqb c Hc) eqn:E.
    + apply Ascii.eqb_eq in E. subst c. change ((Hc :: w) ++ [dot]) with (Hc :: (w ++ [dot])). rewrite Hn_snoc. apply IH. exact Hw.
    + cbn [orb] in Hc0. apply Ascii.eqb_eq in Hc0. subst c. cbn [map]. rewrite body_cons.
      change ((dot :: w) ++ [dot]) with (dot :: (w ++ [dot])). f_equal. f_equal. apply (IH Hw 0).
Qed.

Lemma rule_as_runs w : hd_word w = true -> forall r, by_runs w r ++ [dot] = body (map rout (runs w r)).
Proof.
  induction w as [|c w IH]; intros Hw r.
  - cbn [runs map]. rewrite body_cons. destruct r; reflexivity.
  - unfold hd_word in Hw. cbn [forallb] in Hw. apply andb_prop in Hw as [Hc0 Hw]. cbn [runs by_runs].
    destruct (Ascii.eqb c Hc) eqn:E; [apply IH; exact Hw|].
    cbn [orb] in Hc0. apply Ascii.eqb_eq in Hc0. subst c. cbn [map]. rewrite body_cons, <- app_assoc.
    change (rout r) with (match r with O => [] | _ => run_text r end). f_equal.
    change ((dot :: by_runs w 0) ++ [dot]) with (dot :: (by_runs w 0 ++ [dot])). f_equal. apply (IH Hw 0).
Qed.

(* for a wildcard string of ANY length the character-level rewriting is the run rule *)
Lemma rewrite_is_rule w : hd_word w = true -> rewrite_c w = Some (by_runs w 0).
Proof.
  intros Hw. unfold rewrite_c.
  assert (E : dot :: w ++ [dot] = render (map Hn (runs w 0))) by (unfold render; rewrite <- (word_as_runs w Hw 0); reflexivity).
  rewrite E, rewrite_all_segments.
  - rewrite map_map. cbn [option_map]. f_equal.
    rewrite (map_ext (fun x => stage (Hn x)) rout stage_run). unfold render. rewrite <- (rule_as_runs w Hw 0).
    unfold unflank. cbn [tl]. apply removelast_last.
  - apply Forall_map. apply Forall_forall. intros n _. apply Hn_nodot.
Qed.
