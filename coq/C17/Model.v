(* C17 — executable model of vermouth/dssp/dssp.py:
   annotate_residues_from_sequence (l.478-505), AnnotateResidues.run_system (l.670-725),
   sequence order = Molecule.iter_residues (residues ordered by their lowest node key, via
   graph_utils.make_residue_graph/partition_graph), and convert_dssp_to_martini (l.386-447)
   as character-level string rewriting over the tables regenerated from the source. *)
From Coq Require Import List Bool ZArith String Ascii.
From V Require Import Base.Sort.
Import ListNotations.

(* ---------- residues and per-residue assignment ---------- *)
Record atom := { a_key : Z; a_res : Z }.    (* a_res: identifies (chain, resid, resname, insertion_code) *)
Definition key_leb (a b : atom) : bool := Z.leb (a_key a) (a_key b).

Fixpoint dedup (l : list Z) (seen : list Z) : list Z :=
  match l with
  | [] => []
  | x :: r => if existsb (Z.eqb x) seen then dedup r seen else x :: dedup r (x :: seen)
  end.
(* iter_residues: residues in order of their lowest node key *)
Definition residues (m : list atom) : list Z := dedup (map a_res (sort key_leb m)) [].

Fixpoint index_of (x : Z) (l : list Z) (i : nat) : option nat :=
  match l with [] => None | y :: r => if Z.eqb x y then Some i else index_of x r (S i) end.

(* annotate_residues_from_sequence: value of each atom (in node order), or an error *)
Definition annotate {V} (m : list atom) (seq : list V) : option (list (Z * option V)) :=
  let rs := residues m in
  let seq' := match seq with [v] => repeat v (List.length rs) | _ => seq end in
  if Nat.eqb (List.length seq') (List.length rs) then
    Some (map (fun a => (a_key a, match index_of (a_res a) rs 0 with
                                  | Some i => nth_error seq' i | None => None end)) m)
  else None.

Definition all_equal (l : list nat) : bool :=
  match l with [] => true | x :: r => forallb (Nat.eqb x) r end.

(* AnnotateResidues.run_system: None = ValueError; unselected molecules get no value *)
Fixpoint assign_loop {V} (ms : list (bool * list atom)) (seq : list V) : option (list (list (Z * option V))) :=
  match ms with
  | [] => Some []
  | (sel, m) :: r =>
      if sel then
        let n := List.length (residues m) in
        match annotate m (firstn n seq), assign_loop r (skipn n seq) with
        | Some x, Some xs => Some (x :: xs)
        | _, _ => None
        end
      else match assign_loop r seq with
           | Some xs => Some (map (fun a => (a_key a, None)) m :: xs)
           | None => None end
  end.

Definition run_system {V} (ms : list (bool * list atom)) (seq : list V) : option (list (list (Z * option V))) :=
  let lens := map (fun sm => List.length (residues (snd sm))) (filter fst ms) in
  let total := fold_right Nat.add 0%nat lens in
  match seq, lens with
  | _ :: _, [] => None                                  (* no molecule to apply the sequence to *)
  | _, _ =>
      let seq' :=
        if (match lens with l0 :: _ => Nat.eqb (List.length seq) l0 && all_equal lens | [] => false end)
        then Some (List.concat (repeat seq (List.length lens)))
        else if Nat.eqb (List.length seq) 1 then Some (List.concat (repeat seq total))
        else if negb (Nat.eqb (List.length seq) total) then None
        else Some seq in
      match seq' with
      | None => None
      | Some s => assign_loop ms s
      end
  end.

(* ---------- DSSP -> Martini ---------- *)
Definition txt := list ascii.
Definition s2l (s : string) : txt := list_ascii_of_string s.

Fixpoint is_prefix (p s : txt) : bool :=
  match p, s with
  | [], _ => true
  | a :: p', b :: s' => Ascii.eqb a b && is_prefix p' s'
  | _ :: _, [] => false
  end.

(* str.replace(p, r): leftmost, non-overlapping; fuel = length of the string + 1 *)
Fixpoint replace_pass (fuel : nat) (p r s : txt) : txt :=
  match fuel with
  | O => s
  | S f =>
      match s with
      | [] => if is_prefix p [] then r else []
      | c :: s' => if is_prefix p s then r ++ replace_pass f p r (skipn (List.length p) s)
                   else c :: replace_pass f p r s'
      end
  end.

Fixpoint contains (p s : txt) : bool :=
  is_prefix p s || match s with [] => false | _ :: s' => contains p s' end.

(* while pattern in s: s = s.replace(pattern, replacement); None = fuel exhausted *)
Fixpoint replace_until (fuel : nat) (p r s : txt) : option txt :=
  if contains p s then
    match fuel with
    | O => None
    | S f => replace_until f p r (replace_pass (S (List.length s)) p r s)
    end
  else Some s.

Fixpoint lookup (tbl : list (ascii * ascii)) (c : ascii) : option ascii :=
  match tbl with [] => None | (a, b) :: r => if Ascii.eqb a c then Some b else lookup r c end.

Fixpoint map_opt {A B} (f : A -> option B) (l : list A) : option (list B) :=
  match l with
  | [] => Some []
  | x :: r => match f x, map_opt f r with Some y, Some ys => Some (y :: ys) | _, _ => None end
  end.

Definition Hc : ascii := "H"%char.
Definition dot : ascii := "."%char.

Definition wildcard (cg : txt) : txt := map (fun c => if Ascii.eqb c Hc then Hc else dot) cg.

Fixpoint rewrite_all (pats : list (txt * txt)) (w : txt) : option txt :=
  match pats with
  | [] => Some w
  | (p, r) :: rest => match replace_until (S (List.length w)) p r w with
                      | Some w' => rewrite_all rest w'
                      | None => None end
  end.

Definition unflank (w : txt) : txt := removelast (tl w).

Definition merge (w cg : txt) : txt :=
  map (fun wc => if Ascii.eqb (fst wc) dot then snd wc else fst wc) (combine w cg).

(* convert_dssp_to_martini; None = KeyError (class not in SS_CG) *)
Definition convert (tbl : list (ascii * ascii)) (pats : list (txt * txt)) (seq : txt) : option txt :=
  match map_opt (lookup tbl) seq with
  | None => None
  | Some cg =>
      match rewrite_all pats (dot :: wildcard cg ++ [dot]) with
      | Some w => Some (merge (unflank w) cg)
      | None => None
      end
  end.

(* ---------- the documented rule, by maximal helical runs ---------- *)
Definition run_text (n : nat) : txt :=
  match n with
  | 1 => s2l "3" | 2 => s2l "33" | 3 => s2l "333" | 4 => s2l "3333"
  | 5 => s2l "13332" | 6 => s2l "113322" | 7 => s2l "1113222"
  | _ => s2l "1111" ++ repeat Hc (n - 8) ++ s2l "2222"
  end.

(* split cg into maximal runs of H and the other characters *)
Fixpoint by_runs (cg : txt) (run : nat) : txt :=
  match cg with
  | [] => match run with O => [] | _ => run_text run end
  | c :: r => if Ascii.eqb c Hc then by_runs r (S run)
              else (match run with O => [] | _ => run_text run end) ++ c :: by_runs r 0
  end.

Definition convert_spec (tbl : list (ascii * ascii)) (seq : txt) : option txt :=
  match map_opt (lookup tbl) seq with
  | None => None
  | Some cg => Some (by_runs cg 0)
  end.
