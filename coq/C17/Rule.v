From Coq Require Import List Bool ZArith String Ascii Lia.
From V Require Import Base.Sort C17.Model C17.Proofs C17.Bridge C17.General.
From V Require Import Extracted.Dssp.
Import ListNotations.

Lemma all_words_in n : forall w,
  List.length w = n -> forallb (fun c => Ascii.eqb c Hc || Ascii.eqb c dot) w = true -> In w (all_words n).
Proof.
  induction n as [|n IH]; intros w Hl Hc0.
  - destruct w; [left; reflexivity|discriminate].
  - destruct w as [|c w]; [discriminate|]. cbn in Hl, Hc0. apply andb_prop in Hc0 as [Hc1 Hr].
    cbn [all_words]. apply in_flat_map. exists w. split; [apply IH; [lia|exact Hr]|].
    apply orb_prop in Hc1 as [E|E]; apply Ascii.eqb_eq in E; subst; cbn; auto.
Qed.

Lemma wildcard_chars cg : forallb (fun c => Ascii.eqb c Hc || Ascii.eqb c dot) (wildcard cg) = true.
Proof.
  apply forallb_forall. intros x Hx. unfold wildcard in Hx. apply in_map_iff in Hx as (c & <- & _).
  destruct (Ascii.eqb c Hc); reflexivity.
Qed.

Lemma txt_eqb_eq a : forall b, txt_eqb a b = true -> a = b.
Proof.
  induction a as [|x a IH]; intros [|y b]; cbn; try discriminate; [reflexivity|].
  intros H. apply andb_prop in H as [H1 H2]. apply Ascii.eqb_eq in H1. subst. f_equal. apply IH. exact H2.
Qed.

Lemma bridge_word w : (List.length w <= BOUND)%nat ->
  forallb (fun c => Ascii.eqb c Hc || Ascii.eqb c dot) w = true -> rewrite_c w = Some (by_runs w 0).
Proof.
  intros Hl Hc0. pose proof bridge_bounded_all as B. rewrite forallb_forall in B.
  specialize (B (List.length w)). rewrite forallb_forall in B.
  assert (Hin : In (List.length w) (seq 0 (S BOUND))) by (apply in_seq; lia).
  specialize (B Hin w (all_words_in _ w eq_refl Hc0)). unfold bridge_ok in B.
  destruct (rewrite_c w) as [o|]; [|discriminate]. apply txt_eqb_eq in B. congruence.
Qed.

(* merging the rule applied to the wildcard string with the table-translated string is the
   rule applied to the table-translated string *)
Definition run_out (r : nat) : txt := match r with O => [] | _ => run_text r end.

Lemma run_text_props r : List.length (run_out r) = r /\ forallb (fun c => negb (Ascii.eqb c dot)) (run_out r) = true.
Proof.
  destruct r as [|r]; [split; reflexivity|]. unfold run_out.
  do 7 (destruct r as [|r]; [split; reflexivity|]).
  cbn [run_text]. replace (S (S (S (S (S (S (S (S r))))))) - 8)%nat with r by lia.
  split.
  - rewrite !app_length, repeat_length. cbn. lia.
  - rewrite !forallb_app. cbn. rewrite andb_true_r. induction r as [|r IH]; cbn; auto.
Qed.

Lemma merge_nodots a : forall b, List.length a = List.length b ->
  forallb (fun c => negb (Ascii.eqb c dot)) a = true -> merge a b = a.
Proof.
  induction a as [|x a IH]; intros [|y b] Hl H; cbn in *; try discriminate; [reflexivity|].
  apply andb_prop in H as [Hx Ha]. apply negb_true_iff in Hx. unfold merge in *. cbn. rewrite Hx. f_equal.
  apply IH; [lia|exact Ha].
Qed.

Lemma merge_app a1 : forall a2 b1 b2, List.length a1 = List.length b1 ->
  merge (a1 ++ a2) (b1 ++ b2) = merge a1 b1 ++ merge a2 b2.
Proof.
  induction a1 as [|x a1 IH]; intros a2 [|y b1] b2 Hl; cbn in *; try discriminate; [reflexivity|].
  unfold merge in *. cbn. f_equal. apply IH. lia.
Qed.

Lemma repeat_snoc {A} (x : A) n l : repeat x n ++ x :: l = repeat x (S n) ++ l.
Proof. induction n; cbn; [reflexivity|]. f_equal. exact IHn. Qed.

Lemma by_runs_unfold_out cg r : by_runs cg r =
  match cg with
  | [] => run_out r
  | c :: rest => if Ascii.eqb c Hc then by_runs rest (S r) else run_out r ++ c :: by_runs rest 0
  end.
Proof. destruct cg; reflexivity. Qed.

Lemma by_runs_wildcard cg : forall r,
  merge (by_runs (wildcard cg) r) (repeat Hc r ++ cg) = by_runs cg r.
Proof.
  induction cg as [|c cg IH]; intros r.
  - cbn [wildcard map]. rewrite !by_runs_unfold_out, app_nil_r. destruct (run_text_props r) as [Hl Hd].
    apply merge_nodots; [rewrite repeat_length; exact Hl|exact Hd].
  - cbn [wildcard map]. fold (wildcard cg). rewrite (by_runs_unfold_out (c :: cg)).
    destruct (Ascii.eqb c Hc) eqn:E.
    + apply Ascii.eqb_eq in E. subst c. rewrite by_runs_unfold_out. change (Ascii.eqb Hc Hc) with true. cbv iota.
      rewrite repeat_snoc. apply IH.
    + rewrite by_runs_unfold_out. change (Ascii.eqb dot Hc) with false. cbv iota.
      destruct (run_text_props r) as [Hl Hd].
      rewrite merge_app by (rewrite repeat_length; exact Hl).
      rewrite merge_nodots by (rewrite ?repeat_length; auto). f_equal.
      change (dot :: by_runs (wildcard cg) 0) with ([dot] ++ by_runs (wildcard cg) 0).
      change (c :: cg) with ([c] ++ cg). rewrite merge_app by reflexivity.
      specialize (IH 0%nat). cbn [repeat app] in IH. rewrite IH. reflexivity.
Qed.

(* for every DSSP string up to the bound the conversion IS the documented rule *)
Lemma convert_run_rule_bounded_lemma seq :
  (List.length seq <= BOUND)%nat -> convert ss_cg pats seq = convert_spec ss_cg seq.
Proof.
  intros Hl. unfold convert, convert_spec. destruct (map_opt (lookup ss_cg) seq) as [cg|] eqn:E; [|reflexivity].
  pose proof (map_opt_length _ _ _ E) as Hlen.
  pose proof (bridge_word (wildcard cg)) as B. rewrite wildcard_length in B.
  specialize (B ltac:(lia) (wildcard_chars cg)). unfold rewrite_c in B.
  destruct (rewrite_all pats (dot :: wildcard cg ++ [dot])) as [w|]; [|discriminate].
  cbn in B. injection B as B. rewrite B. f_equal.
  pose proof (by_runs_wildcard cg 0) as G. cbn [repeat app] in G. exact G.
Qed.

(* for DSSP strings of EVERY length the conversion IS the documented rule (C17/General.v) *)
Lemma convert_run_rule_lemma seq : convert ss_cg pats seq = convert_spec ss_cg seq.
Proof.
  unfold convert, convert_spec. destruct (map_opt (lookup ss_cg) seq) as [cg|] eqn:E; [|reflexivity].
  pose proof (rewrite_is_rule (wildcard cg) (wildcard_chars cg)) as B. unfold rewrite_c in B.
  destruct (rewrite_all pats (dot :: wildcard cg ++ [dot])) as [w|]; [|discriminate].
  cbn in B. injection B as B. rewrite B. f_equal.
  pose proof (by_runs_wildcard cg 0) as G. cbn [repeat app] in G. exact G.
Qed.
