(* C17 — the finite part: for EVERY wildcard string of length <= BOUND the character-level
   rewriting (patterns regenerated from the source) equals the run rule. 2^(BOUND+1) strings. *)
From Coq Require Import List Bool ZArith String Ascii.
From V Require Import C17.Model C17.Proofs.
Import ListNotations.

Definition BOUND : nat := 15.

Lemma bridge_bounded_all : forallb (fun n => forallb bridge_ok (all_words n)) (seq 0 (S BOUND)) = true.
Proof. vm_compute. reflexivity. Qed.

