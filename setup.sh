#!/bin/bash
# Build the whole Coq development from files on disk (offline) and run the gate.
set -e
cd "$(dirname "$0")"
export PYTHONHASHSEED=0 PYTHONPATH=${VERIF_REPO:-/repo} PYTHONWARNINGS=ignore PYTHONDONTWRITEBYTECODE=1
mkdir -p work replays evidence coq/Extracted
/venv/bin/python -W ignore -c "
import sys; sys.path.insert(0,'.')
from vlib import common
for name, ok, detail in common.run_extract():
    print('extract', name, 'ok' if ok else 'FAILED', detail)
hits = common.forbidden_scan()
if hits:
    print('FORBIDDEN:', hits); sys.exit(1)
"
cd coq
coq_makefile -f _CoqProject -o Makefile > /dev/null
timeout 3000 make -j16 -k > ../work/build.log 2>&1 || { grep -v conda ../work/build.log | tail -40; echo "BUILD HAD FAILURES (individual checks report them)"; }
grep -c "Closed under the global context" ../work/build.log || true
echo "setup done"
